//! Plain test that replays one stored violation without the explorer:
//!   MHV_REPLAY=/verif/replays/<ID>-<hash>.json RUSTFLAGS='--cfg micro_http_verif [--cfg micro_http_verif_small]' \\
//!     cargo test --release --offline --test replay
//! Passes when the violation does NOT reproduce on the current /repo tree (or no file is given).
#[test]
fn replay_stored_violation() {
    let path = match std::env::var("MHV_REPLAY") {
        Ok(p) => p,
        Err(_) => return,
    };
    let v: serde_json::Value = serde_json::from_slice(&std::fs::read(&path).expect("replay file")).expect("json");
    match mhv::replay_value(&v["replay"]) {
        None => eprintln!("replay file was recorded for the other build flavour; nothing replayed"),
        Some((reproduced, trace)) => {
            assert!(!reproduced, "violation {} reproduces: {}", v["signature"], serde_json::to_string_pretty(&trace).unwrap());
        }
    }
}
