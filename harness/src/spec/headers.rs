//! Independent statement of the request-header rules (property C15 and the header part of
//! C02/C13): names case-insensitive, whitespace around names and values ignored, tolerant vs
//! fatal faults, last acceptable Content-Length / Accept wins, flags sticky, everything else a
//! custom entry (trimmed, last wins).

use std::collections::BTreeMap;

#[derive(Clone, Debug, PartialEq, Eq, Hash, Default, PartialOrd, Ord)]
pub struct SpecHeaders {
    pub content_length: u32,
    pub expect: bool,
    pub chunked: bool,
    /// false = text/plain (the default), true = application/json
    pub accept_json: bool,
    pub custom: BTreeMap<String, String>,
}

#[derive(Clone, Copy, Debug, PartialEq, Eq, Hash)]
pub enum Fault {
    NotUtf8,
    NoColon,
    BadContentLength,
    AcceptEncoding,
}

#[derive(Clone, Copy, Debug, PartialEq, Eq, Hash)]
pub enum Verdict {
    /// Line accepted and applied.
    Applied,
    /// Unsupported value of Content-Type / Accept / Transfer-Encoding / Expect: ignored.
    Ignored,
    /// The line rejects the request.
    Fatal(Fault),
    /// The property text does not settle this input (e.g. `Content-Length: +5`); never judged.
    Unjudged,
}

/// Unicode White_Space, spelled out (independent of `str::trim`).
pub fn is_ws(c: char) -> bool {
    matches!(c,
        '\u{0009}'..='\u{000D}' | '\u{0020}' | '\u{0085}' | '\u{00A0}' | '\u{1680}'
        | '\u{2000}'..='\u{200A}' | '\u{2028}' | '\u{2029}' | '\u{202F}' | '\u{205F}' | '\u{3000}')
}

pub fn strip(s: &str) -> &str {
    let mut start = 0;
    let mut end = s.len();
    for (i, c) in s.char_indices() {
        if !is_ws(c) {
            start = i;
            break;
        }
        start = i + c.len_utf8();
    }
    if start >= end {
        return "";
    }
    for (i, c) in s.char_indices().rev() {
        if !is_ws(c) {
            end = i + c.len_utf8();
            break;
        }
    }
    &s[start..end]
}

fn lower(s: &str) -> String {
    s.chars()
        .map(|c| if c.is_ascii_uppercase() { (c as u8 + 32) as char } else { c })
        .collect()
}

/// `None` = not an unsigned 32-bit decimal; `Some(None)` = shape the property does not settle.
fn u32_decimal(v: &str) -> Option<Option<u32>> {
    if v.is_empty() {
        return None;
    }
    if let Some(rest) = v.strip_prefix('+') {
        // Rust's integer parser accepts one leading '+'; "unsigned 32-bit decimal" does not say.
        if !rest.is_empty() && rest.bytes().all(|b| b.is_ascii_digit()) {
            return Some(None);
        }
        return None;
    }
    if !v.bytes().all(|b| b.is_ascii_digit()) {
        return None;
    }
    let mut acc: u64 = 0;
    for b in v.bytes() {
        acc = acc * 10 + (b - b'0') as u64;
        if acc > u32::MAX as u64 {
            return None;
        }
    }
    Some(Some(acc as u32))
}

/// Accept-Encoding: fatal when empty or when identity is excluded.
pub fn accept_encoding_ok(value: &str) -> Result<(), ()> {
    if value.is_empty() {
        return Err(());
    }
    let mentions_identity = value.contains("identity");
    for item in value.split(',') {
        let item = strip(item);
        if item == "identity;q=0" {
            return Err(());
        }
        if item == "*;q=0" && !mentions_identity {
            return Err(());
        }
    }
    Ok(())
}

impl SpecHeaders {
    pub fn apply_line(&mut self, line: &[u8]) -> Verdict {
        let text = match std::str::from_utf8(line) {
            Ok(t) => t,
            Err(_) => return Verdict::Fatal(Fault::NotUtf8),
        };
        let colon = match text.find(':') {
            Some(i) => i,
            None => return Verdict::Fatal(Fault::NoColon),
        };
        let raw_name = strip(&text[..colon]);
        let value = strip(&text[colon + 1..]);
        match lower(raw_name).as_str() {
            "content-length" => match u32_decimal(value) {
                Some(Some(n)) => {
                    self.content_length = n;
                    Verdict::Applied
                }
                Some(None) => Verdict::Unjudged,
                None => Verdict::Fatal(Fault::BadContentLength),
            },
            "content-type" => match value {
                "text/plain" | "application/json" => Verdict::Applied,
                _ => Verdict::Ignored,
            },
            "accept" => match value {
                "text/plain" => {
                    self.accept_json = false;
                    Verdict::Applied
                }
                "application/json" => {
                    self.accept_json = true;
                    Verdict::Applied
                }
                _ => Verdict::Ignored,
            },
            "transfer-encoding" => match value {
                "chunked" => {
                    self.chunked = true;
                    Verdict::Applied
                }
                "identity" => Verdict::Applied,
                _ => Verdict::Ignored,
            },
            "expect" => match value {
                "100-continue" => {
                    self.expect = true;
                    Verdict::Applied
                }
                _ => Verdict::Ignored,
            },
            "server" => Verdict::Applied,
            "accept-encoding" => match accept_encoding_ok(value) {
                Ok(()) => Verdict::Applied,
                Err(()) => Verdict::Fatal(Fault::AcceptEncoding),
            },
            _ => {
                self.custom.insert(raw_name.to_string(), value.to_string());
                Verdict::Applied
            }
        }
    }

    /// A header block is its lines applied one by one; the first fatal line rejects it.
    pub fn apply_block(lines: &[&[u8]]) -> Result<SpecHeaders, Verdict> {
        let mut h = SpecHeaders::default();
        for l in lines {
            match h.apply_line(l) {
                Verdict::Applied | Verdict::Ignored => {}
                v => return Err(v),
            }
        }
        Ok(h)
    }
}

/// The same view of the implementation's `Headers`, through its public accessors only.
pub fn view(h: &micro_http::Headers) -> SpecHeaders {
    SpecHeaders {
        content_length: h.content_length(),
        expect: h.expect(),
        chunked: h.chunked(),
        accept_json: h.accept() == micro_http::MediaType::ApplicationJson,
        custom: h
            .custom_entries()
            .iter()
            .map(|(k, v)| (k.clone(), v.clone()))
            .collect(),
    }
}
