//! Whole-stream reference for what a connection must deliver (C01/C02/C04/C13), in two
//! formulations that are cross-validated against each other: `parse_all` (the grammar applied
//! to a complete byte string) and `Machine` (the same rules fed one byte at a time, with
//! bounded state, used in lock-step products). Neither looks at read boundaries.

use super::headers::{Fault, SpecHeaders, Verdict};

#[derive(Clone, Copy, Debug, PartialEq, Eq, Hash, PartialOrd, Ord)]
pub enum Method {
    Get,
    Put,
    Patch,
}
#[derive(Clone, Copy, Debug, PartialEq, Eq, Hash, PartialOrd, Ord)]
pub enum Version {
    H10,
    H11,
}

#[derive(Clone, Debug, PartialEq, Eq, Hash)]
pub struct SpecRequest {
    pub method: Method,
    pub uri: String,
    pub version: Version,
    pub headers: SpecHeaders,
    /// `None` when Content-Length is 0 / absent.
    pub body: Option<Vec<u8>>,
}

/// Which element of the stream is at fault ("the kind names the first offending element").
#[derive(Clone, Copy, Debug, PartialEq, Eq, Hash)]
pub enum ErrClass {
    /// Request line malformed (fewer than three SP-separated fields) or longer than the limit.
    RequestLine,
    Method,
    Uri,
    Version,
    /// A header line is at fault (no colon, not UTF-8, bad Content-Length, bad
    /// Accept-Encoding, longer than the limit).
    Header,
    /// `Accept-Encoding` empty or excluding identity (the documented kind for the empty value
    /// is the generic invalid-request one, so both that and a header error name it).
    AcceptEncoding,
    /// Declared Content-Length n exceeds the limit L: (L, n).
    Payload(usize, usize),
}

#[derive(Clone, Debug, PartialEq, Eq, Hash)]
pub enum Event {
    Request(SpecRequest),
    /// `100 Continue` with the request's version becomes due.
    Continue(Version),
    Error(ErrClass),
    /// The input left what the property text settles (never judged; stops comparison).
    Unjudged,
}

pub fn parse_request_line(line: &[u8]) -> Result<(Method, String, Version), ErrClass> {
    let sp1 = line.iter().position(|b| *b == b' ').ok_or(ErrClass::RequestLine)?;
    let rest = &line[sp1 + 1..];
    let sp2 = rest.iter().position(|b| *b == b' ').ok_or(ErrClass::RequestLine)?;
    let (m, u, v) = (&line[..sp1], &rest[..sp2], &rest[sp2 + 1..]);
    let method = match m {
        b"GET" => Method::Get,
        b"PUT" => Method::Put,
        b"PATCH" => Method::Patch,
        _ => return Err(ErrClass::Method),
    };
    if u.is_empty() {
        return Err(ErrClass::Uri);
    }
    let uri = std::str::from_utf8(u).map_err(|_| ErrClass::Uri)?.to_string();
    let version = match v {
        b"HTTP/1.0" => Version::H10,
        b"HTTP/1.1" => Version::H11,
        _ => return Err(ErrClass::Version),
    };
    Ok((method, uri, version))
}

enum Line<'a> {
    Complete(&'a [u8], usize),
    TooLong,
    Incomplete,
}

/// A line ends at the first CRLF; it is too long iff its first `line_max` bytes contain no
/// complete CRLF.
fn take_line(bytes: &[u8], pos: usize, line_max: usize) -> Line<'_> {
    let window = &bytes[pos..bytes.len().min(pos + line_max)];
    match window.windows(2).position(|w| w == b"\r\n") {
        Some(i) => Line::Complete(&window[..i], pos + i + 2),
        None if window.len() == line_max => Line::TooLong,
        None => Line::Incomplete,
    }
}

/// Events of a whole stream with the number of bytes after whose consumption each is due.
pub fn parse_all(bytes: &[u8], limit: usize, line_max: usize) -> Vec<(usize, Event)> {
    let mut ev = vec![];
    let mut pos = 0usize;
    loop {
        let (method, uri, version) = match take_line(bytes, pos, line_max) {
            Line::Incomplete => return ev,
            Line::TooLong => {
                ev.push((pos + line_max, Event::Error(ErrClass::RequestLine)));
                return ev;
            }
            Line::Complete(l, next) => {
                pos = next;
                match parse_request_line(l) {
                    Ok(x) => x,
                    Err(c) => {
                        ev.push((pos, Event::Error(c)));
                        return ev;
                    }
                }
            }
        };
        let mut headers = SpecHeaders::default();
        loop {
            match take_line(bytes, pos, line_max) {
                Line::Incomplete => return ev,
                Line::TooLong => {
                    ev.push((pos + line_max, Event::Error(ErrClass::Header)));
                    return ev;
                }
                Line::Complete(l, next) => {
                    pos = next;
                    if l.is_empty() {
                        break;
                    }
                    match headers.apply_line(l) {
                        Verdict::Applied | Verdict::Ignored => {}
                        Verdict::Fatal(f) => {
                            let c = if f == Fault::AcceptEncoding { ErrClass::AcceptEncoding } else { ErrClass::Header };
                            ev.push((pos, Event::Error(c)));
                            return ev;
                        }
                        Verdict::Unjudged => {
                            ev.push((pos, Event::Unjudged));
                            return ev;
                        }
                    }
                }
            }
        }
        let n = headers.content_length as usize;
        if n == 0 {
            ev.push((pos, Event::Request(SpecRequest { method, uri, version, headers, body: None })));
            continue;
        }
        if n > limit {
            ev.push((pos, Event::Error(ErrClass::Payload(limit, n))));
            return ev;
        }
        if headers.expect {
            ev.push((pos, Event::Continue(version)));
        }
        if bytes.len() - pos < n {
            return ev;
        }
        let body = bytes[pos..pos + n].to_vec();
        pos += n;
        ev.push((pos, Event::Request(SpecRequest { method, uri, version, headers, body: Some(body) })));
    }
}

#[derive(Clone, Debug, PartialEq, Eq, Hash)]
enum Phase {
    RequestLine,
    Headers,
    Body,
    Dead,
}

/// Byte-at-a-time formulation of the same rules.
#[derive(Clone, Debug, PartialEq, Eq, Hash)]
pub struct Machine {
    pub limit: usize,
    pub line_max: usize,
    phase: Phase,
    line: Vec<u8>,
    cur: Option<(Method, String, Version)>,
    headers: SpecHeaders,
    body: Vec<u8>,
    body_missing: usize,
}

impl Machine {
    pub fn new(limit: usize, line_max: usize) -> Self {
        Machine {
            limit,
            line_max,
            phase: Phase::RequestLine,
            line: vec![],
            cur: None,
            headers: SpecHeaders::default(),
            body: vec![],
            body_missing: 0,
        }
    }
    pub fn is_dead(&self) -> bool {
        self.phase == Phase::Dead
    }
    pub fn in_request_line(&self) -> bool {
        self.phase == Phase::RequestLine
    }
    pub fn in_headers(&self) -> bool {
        self.phase == Phase::Headers
    }
    pub fn in_body(&self) -> bool {
        self.phase == Phase::Body
    }
    pub fn body_missing(&self) -> usize {
        self.body_missing
    }
    pub fn partial_line_len(&self) -> usize {
        self.line.len()
    }
    pub fn at_request_boundary(&self) -> bool {
        self.phase == Phase::RequestLine && self.line.is_empty()
    }
    pub fn content_length(&self) -> u32 {
        self.headers.content_length
    }
    pub fn digest(&self) -> Vec<u8> {
        let mut d = Vec::with_capacity(64 + self.line.len() + self.body.len());
        d.push(match self.phase {
            Phase::RequestLine => 0,
            Phase::Headers => 1,
            Phase::Body => 2,
            Phase::Dead => 3,
        });
        d.extend_from_slice(&(self.line.len() as u32).to_le_bytes());
        d.extend_from_slice(&self.line);
        d.extend_from_slice(&(self.body.len() as u32).to_le_bytes());
        d.extend_from_slice(&self.body);
        d.extend_from_slice(&(self.body_missing as u64).to_le_bytes());
        d.extend_from_slice(format!("{:?}{:?}", self.cur, self.headers).as_bytes());
        d
    }

    pub fn feed(&mut self, b: u8, out: &mut Vec<Event>) {
        match self.phase {
            Phase::Dead => {}
            Phase::Body => {
                self.body.push(b);
                self.body_missing -= 1;
                if self.body_missing == 0 {
                    let (method, uri, version) = self.cur.take().unwrap();
                    out.push(Event::Request(SpecRequest {
                        method,
                        uri,
                        version,
                        headers: std::mem::take(&mut self.headers),
                        body: Some(std::mem::take(&mut self.body)),
                    }));
                    self.phase = Phase::RequestLine;
                }
            }
            Phase::RequestLine | Phase::Headers => {
                self.line.push(b);
                let n = self.line.len();
                if n >= 2 && self.line[n - 2] == b'\r' && self.line[n - 1] == b'\n' {
                    let mut line = std::mem::take(&mut self.line);
                    line.truncate(n - 2);
                    self.complete_line(&line, out);
                } else if n == self.line_max {
                    let class = if self.phase == Phase::RequestLine {
                        ErrClass::RequestLine
                    } else {
                        ErrClass::Header
                    };
                    out.push(Event::Error(class));
                    self.phase = Phase::Dead;
                }
            }
        }
    }

    fn complete_line(&mut self, line: &[u8], out: &mut Vec<Event>) {
        if self.phase == Phase::RequestLine {
            match parse_request_line(line) {
                Ok(rl) => {
                    self.cur = Some(rl);
                    self.headers = SpecHeaders::default();
                    self.phase = Phase::Headers;
                }
                Err(c) => {
                    out.push(Event::Error(c));
                    self.phase = Phase::Dead;
                }
            }
            return;
        }
        if !line.is_empty() {
            match self.headers.apply_line(line) {
                Verdict::Applied | Verdict::Ignored => {}
                Verdict::Fatal(f) => {
                    let c = if f == Fault::AcceptEncoding { ErrClass::AcceptEncoding } else { ErrClass::Header };
                    out.push(Event::Error(c));
                    self.phase = Phase::Dead;
                }
                Verdict::Unjudged => {
                    out.push(Event::Unjudged);
                    self.phase = Phase::Dead;
                }
            }
            return;
        }
        // blank line: end of the header block
        let n = self.headers.content_length as usize;
        if n == 0 {
            let (method, uri, version) = self.cur.take().unwrap();
            out.push(Event::Request(SpecRequest {
                method,
                uri,
                version,
                headers: std::mem::take(&mut self.headers),
                body: None,
            }));
            self.phase = Phase::RequestLine;
        } else if n > self.limit {
            out.push(Event::Error(ErrClass::Payload(self.limit, n)));
            self.phase = Phase::Dead;
        } else {
            if self.headers.expect {
                out.push(Event::Continue(self.cur.as_ref().unwrap().2));
            }
            self.body_missing = n;
            self.body.clear();
            self.phase = Phase::Body;
        }
    }
}

/// Harness self-test: both formulations agree on `bytes` (events and the offsets they are due at).
pub fn cross_check(bytes: &[u8], limit: usize, line_max: usize) -> Result<(), String> {
    let whole = parse_all(bytes, limit, line_max);
    let mut m = Machine::new(limit, line_max);
    let mut inc = vec![];
    for (i, b) in bytes.iter().enumerate() {
        let mut out = vec![];
        m.feed(*b, &mut out);
        for e in out {
            inc.push((i + 1, e));
        }
    }
    if whole != inc {
        return Err(format!(
            "reference formulations disagree on {:?}: whole={:?} incremental={:?}",
            crate::util::show(bytes),
            whole,
            inc
        ));
    }
    Ok(())
}
