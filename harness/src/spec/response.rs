//! Independent HTTP response reader for keep-alive streams: recovers status, version, headers
//! and body of each response from a concatenation, using only the framing rules
//! (status line, header lines, blank line, Content-Length bytes of body; no Content-Length
//! means no body, which is only legitimate for 1xx/204 and is checked by the C05 oracle).

#[derive(Clone, Debug, PartialEq, Eq)]
pub struct ParsedResponse {
    pub version: String,
    pub code: u16,
    /// Text after the code on the status line (micro-http writes a single SP and no reason).
    pub after_code: String,
    pub headers: Vec<(String, String)>,
    pub body: Vec<u8>,
    /// Total number of bytes this response occupies on the stream.
    pub len: usize,
}

impl ParsedResponse {
    pub fn header(&self, name: &str) -> Option<&str> {
        self.headers
            .iter()
            .find(|(k, _)| k.eq_ignore_ascii_case(name))
            .map(|(_, v)| v.as_str())
    }
}

#[derive(Clone, Debug, PartialEq, Eq)]
pub enum ReadResult {
    Complete(ParsedResponse),
    /// The bytes are a proper prefix of a well-formed response.
    Incomplete,
    Malformed(String),
}

fn find_crlf(b: &[u8]) -> Option<usize> {
    b.windows(2).position(|w| w == b"\r\n")
}

pub fn read_one(bytes: &[u8]) -> ReadResult {
    let mut pos;
    // status line
    let line_end = match find_crlf(bytes) {
        Some(i) => i,
        None => {
            // could still become a valid status line? check the prefix shape loosely
            let proto = b"HTTP/1.";
            let n = bytes.len().min(proto.len());
            if bytes[..n] != proto[..n] {
                return ReadResult::Malformed(format!("status line does not start with HTTP/1.: {:?}", crate::util::show(bytes)));
            }
            if bytes.len() > 64 {
                return ReadResult::Malformed("status line longer than 64 bytes".into());
            }
            return ReadResult::Incomplete;
        }
    };
    let line = &bytes[..line_end];
    pos = line_end + 2;
    if line.len() < 12 || &line[..7] != b"HTTP/1." || !(line[7] == b'0' || line[7] == b'1') || line[8] != b' ' {
        return ReadResult::Malformed(format!("bad status line {:?}", crate::util::show(line)));
    }
    if !line[9..12].iter().all(|b| b.is_ascii_digit()) {
        return ReadResult::Malformed(format!("bad status code in {:?}", crate::util::show(line)));
    }
    let code = (line[9] - b'0') as u16 * 100 + (line[10] - b'0') as u16 * 10 + (line[11] - b'0') as u16;
    let after_code = String::from_utf8_lossy(&line[12..]).to_string();
    if !after_code.is_empty() && !after_code.starts_with(' ') {
        return ReadResult::Malformed(format!("status code not followed by SP or CRLF in {:?}", crate::util::show(line)));
    }
    let version = String::from_utf8_lossy(&line[..8]).to_string();
    let mut headers = vec![];
    loop {
        let rest = &bytes[pos..];
        let e = match find_crlf(rest) {
            Some(i) => i,
            None => {
                if rest.len() > 4096 {
                    return ReadResult::Malformed("header line longer than 4096 bytes".into());
                }
                return ReadResult::Incomplete;
            }
        };
        let l = &rest[..e];
        pos += e + 2;
        if l.is_empty() {
            break;
        }
        let text = match std::str::from_utf8(l) {
            Ok(t) => t,
            Err(_) => return ReadResult::Malformed(format!("non-UTF-8 header line {:?}", crate::util::show(l))),
        };
        match text.find(": ") {
            Some(i) if i > 0 => headers.push((text[..i].to_string(), text[i + 2..].to_string())),
            _ => return ReadResult::Malformed(format!("header line without `: ` {:?}", text)),
        }
    }
    let mut body_len = 0usize;
    let cls: Vec<&(String, String)> = headers.iter().filter(|(k, _)| k == "Content-Length").collect();
    if cls.len() > 1 {
        return ReadResult::Malformed("more than one Content-Length".into());
    }
    if let Some((_, v)) = cls.first() {
        if v.is_empty() || !v.bytes().all(|b| b.is_ascii_digit()) {
            return ReadResult::Malformed(format!("Content-Length not a decimal: {:?}", v));
        }
        body_len = match v.parse::<usize>() {
            Ok(n) => n,
            Err(_) => return ReadResult::Malformed(format!("Content-Length out of range: {:?}", v)),
        };
    }
    if bytes.len() - pos < body_len {
        return ReadResult::Incomplete;
    }
    let body = bytes[pos..pos + body_len].to_vec();
    ReadResult::Complete(ParsedResponse { version, code, after_code, headers, body, len: pos + body_len })
}

/// Reads as many complete responses as the bytes hold; returns them, the number of bytes they
/// occupy and whether the remainder is a proper prefix of a response (`Ok`) or garbage (`Err`).
pub fn read_all(bytes: &[u8]) -> (Vec<ParsedResponse>, usize, Result<(), String>) {
    let mut out = vec![];
    let mut pos = 0;
    loop {
        if pos == bytes.len() {
            return (out, pos, Ok(()));
        }
        match read_one(&bytes[pos..]) {
            ReadResult::Complete(r) => {
                pos += r.len;
                out.push(r);
            }
            ReadResult::Incomplete => return (out, pos, Ok(())),
            ReadResult::Malformed(m) => return (out, pos, Err(m)),
        }
    }
}
