//! Reference models ("boring" independent statements of the documented behaviour).
pub mod headers;
pub mod response;
pub mod stream;
