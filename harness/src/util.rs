//! Small shared helpers: stable 128-bit hashing, evidence / violation records, panic capture.

use serde_json::{json, Map, Value};
use std::hash::Hasher;
use std::time::Instant;

/// Deterministic 128-bit digest (two SipHash-1-3 passes with different prefixes; std's
/// `DefaultHasher::new()` uses fixed zero keys, so values are stable across runs and processes).
pub fn hash128(parts: &[&[u8]]) -> u128 {
    #[allow(deprecated)]
    let mut h1 = std::hash::SipHasher::new_with_keys(0x6d68765f6b657931, 0x0123456789abcdef);
    #[allow(deprecated)]
    let mut h2 = std::hash::SipHasher::new_with_keys(0x6d68765f6b657932, 0xfedcba9876543210);
    for p in parts {
        h1.write_u64(p.len() as u64);
        h1.write(p);
        h2.write_u64(p.len() as u64);
        h2.write(p);
    }
    ((h1.finish() as u128) << 64) | h2.finish() as u128
}

pub fn hash64(parts: &[&[u8]]) -> u64 {
    (hash128(parts) >> 64) as u64
}

/// Printable rendering of a byte string for samples and replays.
pub fn show(bytes: &[u8]) -> String {
    let mut s = String::new();
    for &b in bytes.iter().take(160) {
        match b {
            b'\r' => s.push_str("\\r"),
            b'\n' => s.push_str("\\n"),
            b'\\' => s.push_str("\\\\"),
            0x20..=0x7e => s.push(b as char),
            _ => s.push_str(&format!("\\x{:02x}", b)),
        }
    }
    if bytes.len() > 160 {
        s.push_str(&format!("...(+{} bytes)", bytes.len() - 160));
    }
    s
}

pub fn hex(bytes: &[u8]) -> String {
    bytes.iter().map(|b| format!("{:02x}", b)).collect()
}

pub fn unhex(s: &str) -> Vec<u8> {
    (0..s.len() / 2)
        .map(|i| u8::from_str_radix(&s[2 * i..2 * i + 2], 16).unwrap())
        .collect()
}

/// One violation found by an engine.
#[derive(Clone, Debug)]
pub struct Violation {
    /// Shape of the failure (which oracle fired and how) — used to match known findings.
    pub signature: String,
    /// Human readable explanation: expected vs observed.
    pub detail: String,
    /// Self-contained replay description (engine specific).
    pub replay: Value,
}

/// Result of one engine part; merged by `./check`.
pub struct Part {
    pub property: String,
    pub part: String,
    pub level: &'static str,
    pub coverage: Map<String, Value>,
    pub assumptions: Vec<String>,
    pub violations: Vec<Violation>,
    pub machinery_errors: Vec<String>,
    pub start: Instant,
}

impl Part {
    pub fn new(property: &str, part: &str, level: &'static str) -> Self {
        Part {
            property: property.to_string(),
            part: part.to_string(),
            level,
            coverage: Map::new(),
            assumptions: vec![],
            violations: vec![],
            machinery_errors: vec![],
            start: Instant::now(),
        }
    }
    pub fn set(&mut self, k: &str, v: Value) {
        self.coverage.insert(k.to_string(), v);
    }
    pub fn add(&mut self, k: &str, n: u64) {
        let cur = self.coverage.get(k).and_then(|v| v.as_u64()).unwrap_or(0);
        self.coverage.insert(k.to_string(), json!(cur + n));
    }
    pub fn get(&self, k: &str) -> u64 {
        self.coverage.get(k).and_then(|v| v.as_u64()).unwrap_or(0)
    }
    pub fn and_flag(&mut self, k: &str, b: bool) {
        let cur = self.coverage.get(k).and_then(|v| v.as_bool()).unwrap_or(true);
        self.coverage.insert(k.to_string(), json!(cur && b));
    }
    pub fn push(&mut self, k: &str, v: Value) {
        let e = self
            .coverage
            .entry(k.to_string())
            .or_insert_with(|| Value::Array(vec![]));
        if let Value::Array(a) = e {
            a.push(v);
        }
    }
    pub fn merge_counts(&mut self, k: &str, m: &std::collections::BTreeMap<String, u64>) {
        let e = self
            .coverage
            .entry(k.to_string())
            .or_insert_with(|| Value::Object(Map::new()));
        if let Value::Object(o) = e {
            for (name, n) in m {
                let cur = o.get(name).and_then(|v| v.as_u64()).unwrap_or(0);
                o.insert(name.clone(), json!(cur + n));
            }
        }
    }
    pub fn assume(&mut self, s: &str) {
        if !self.assumptions.iter().any(|a| a == s) {
            self.assumptions.push(s.to_string());
        }
    }
    pub fn to_json(&self) -> Value {
        json!({
            "property_id": self.property,
            "part": self.part,
            "level": self.level,
            "coverage": Value::Object(self.coverage.clone()),
            "assumptions": self.assumptions,
            "wall_s": self.start.elapsed().as_secs_f64(),
            "machinery_errors": self.machinery_errors,
            "violations": self.violations.iter().map(|v| json!({
                "signature": v.signature, "detail": v.detail, "replay": v.replay
            })).collect::<Vec<_>>(),
        })
    }
}

/// Runs `f`, turning a panic into `Err(message)`.
pub fn catch<R>(f: impl FnOnce() -> R) -> Result<R, String> {
    match std::panic::catch_unwind(std::panic::AssertUnwindSafe(f)) {
        Ok(r) => Ok(r),
        Err(e) => {
            let msg = if let Some(s) = e.downcast_ref::<&str>() {
                s.to_string()
            } else if let Some(s) = e.downcast_ref::<String>() {
                s.clone()
            } else {
                "panic".to_string()
            };
            Err(msg)
        }
    }
}

/// Silence the default panic printer (panics of the subject are captured and reported by the
/// oracles; panics of the harness itself are re-raised with a message by the callers).
pub fn quiet_panics() {
    std::panic::set_hook(Box::new(|info| {
        if std::env::var("MHV_SHOW_PANICS").is_ok() {
            eprintln!("panic: {}", info);
        }
    }));
}

pub fn env_usize(name: &str, default: usize) -> usize {
    std::env::var(name)
        .ok()
        .and_then(|v| v.parse().ok())
        .unwrap_or(default)
}

pub fn workers() -> usize {
    env_usize("MHV_WORKERS", 16).max(1)
}

pub fn seed() -> u64 {
    std::env::var("VERIF_SEED")
        .ok()
        .and_then(|v| v.parse().ok())
        .unwrap_or(0)
}
