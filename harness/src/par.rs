//! Bounded-exhaustive enumeration helper: runs `f(i)` for every i in 0..n, distributed over
//! forked single-threaded workers, and sums the tallies. A worker that dies (abort, stack
//! overflow, watchdog alarm) is attributed to the item it was executing.

use crate::util::Violation;
use serde_json::{json, Value};
use std::collections::BTreeMap;
use std::io::{Read, Write};
use std::os::unix::io::FromRawFd;

#[derive(Default, Clone)]
pub struct Tally {
    pub evals: u64,
    pub nontrivial: u64,
    pub counters: BTreeMap<String, u64>,
    pub violations: Vec<Violation>,
    pub samples: Vec<Value>,
    /// distinct outcome classes (bounded set of small hashes)
    pub outcomes: std::collections::BTreeSet<u64>,
    pub machinery_errors: Vec<String>,
}

impl Tally {
    pub fn count(&mut self, k: &str) {
        *self.counters.entry(k.to_string()).or_insert(0) += 1;
    }
    pub fn count_n(&mut self, k: &str, n: u64) {
        *self.counters.entry(k.to_string()).or_insert(0) += n;
    }
    pub fn violate(&mut self, signature: &str, detail: String, replay: Value) {
        if self.violations.len() < 3 && !self.violations.iter().any(|v| v.signature == signature) {
            self.violations.push(Violation { signature: signature.to_string(), detail, replay });
        }
        self.count("violations_seen");
    }
    pub fn sample(&mut self, v: Value) {
        if self.samples.len() < 3 {
            self.samples.push(v);
        }
    }
    pub fn outcome(&mut self, h: u64) {
        if self.outcomes.len() < 4096 {
            self.outcomes.insert(h);
        }
    }
    pub fn absorb(&mut self, o: Tally) {
        self.evals += o.evals;
        self.nontrivial += o.nontrivial;
        for (k, v) in o.counters {
            *self.counters.entry(k).or_insert(0) += v;
        }
        for v in o.violations {
            if self.violations.len() < 3 && !self.violations.iter().any(|x| x.signature == v.signature) {
                self.violations.push(v);
            }
        }
        for s in o.samples {
            if self.samples.len() < 4 {
                self.samples.push(s);
            }
        }
        for h in o.outcomes {
            if self.outcomes.len() < 4096 {
                self.outcomes.insert(h);
            }
        }
        self.machinery_errors.extend(o.machinery_errors);
    }
    fn to_json(&self) -> Value {
        json!({
            "evals": self.evals, "nontrivial": self.nontrivial, "counters": self.counters,
            "violations": self.violations.iter().map(|v| json!({"signature": v.signature, "detail": v.detail, "replay": v.replay})).collect::<Vec<_>>(),
            "samples": self.samples, "outcomes": self.outcomes.iter().collect::<Vec<_>>(),
            "machinery_errors": self.machinery_errors,
        })
    }
    fn from_json(v: &Value) -> Tally {
        Tally {
            evals: v["evals"].as_u64().unwrap_or(0),
            nontrivial: v["nontrivial"].as_u64().unwrap_or(0),
            counters: v["counters"].as_object().map(|o| o.iter().map(|(k, v)| (k.clone(), v.as_u64().unwrap_or(0))).collect()).unwrap_or_default(),
            violations: v["violations"]
                .as_array()
                .map(|a| {
                    a.iter()
                        .map(|x| Violation {
                            signature: x["signature"].as_str().unwrap_or("").to_string(),
                            detail: x["detail"].as_str().unwrap_or("").to_string(),
                            replay: x["replay"].clone(),
                        })
                        .collect()
                })
                .unwrap_or_default(),
            samples: v["samples"].as_array().cloned().unwrap_or_default(),
            outcomes: v["outcomes"].as_array().map(|a| a.iter().filter_map(|x| x.as_u64()).collect()).unwrap_or_default(),
            machinery_errors: v["machinery_errors"].as_array().map(|a| a.iter().filter_map(|x| x.as_str().map(|s| s.to_string())).collect()).unwrap_or_default(),
        }
    }
    /// Folds the tally into an evidence part.
    pub fn record(&self, part: &mut crate::util::Part, label: &str) {
        part.add("evaluations", self.evals);
        part.add("distinct_nontrivial", self.nontrivial);
        let prefixed: BTreeMap<String, u64> = self.counters.iter().map(|(k, v)| (format!("{}.{}", label, k), *v)).collect();
        part.merge_counts("counters", &prefixed);
        part.add("distinct_outcome_classes", self.outcomes.len() as u64);
        for s in self.samples.iter().take(2) {
            part.push("samples", json!({"enumeration": label, "case": s}));
        }
        part.push("enumerations", json!({"name": label, "evaluations": self.evals, "distinct_nontrivial": self.nontrivial}));
        for v in &self.violations {
            part.violations.push(v.clone());
        }
        for e in &self.machinery_errors {
            part.machinery_errors.push(format!("{}: {}", label, e));
        }
    }
}

/// `describe(i)` renders item i for abort reports.
pub fn par_enum<F, D>(n: u64, workers: usize, timeout_s: u32, f: F, describe: D) -> Tally
where
    F: Fn(u64, &mut Tally),
    D: Fn(u64) -> String,
{
    let mut total = Tally::default();
    if std::env::var("MHV_NOFORK").is_ok() || n == 0 {
        for i in 0..n {
            f(i, &mut total);
        }
        return total;
    }
    let k = (workers as u64).min(n).max(1);
    // pending ranges per worker: (next item, stride)
    let mut next_item: Vec<u64> = (0..k).collect();
    let mut deaths = 0u32;
    loop {
        if deaths >= 3 {
            // the subject keeps killing or hanging workers: the violations are recorded, stop
            total.count("enumeration_cut_short_after_repeated_worker_deaths");
            break;
        }
        let active: Vec<u64> = (0..k).filter(|w| next_item[*w as usize] < n).collect();
        if active.is_empty() {
            break;
        }
        let mut children = vec![];
        for &w in &active {
            let mut fds = [0i32; 2];
            assert_eq!(unsafe { libc::pipe(fds.as_mut_ptr()) }, 0);
            let _ = std::io::stdout().flush();
            let pid = unsafe { libc::fork() };
            assert!(pid >= 0);
            if pid == 0 {
                unsafe {
                    libc::close(fds[0]);
                }
                let mut pipe = unsafe { std::fs::File::from_raw_fd(fds[1]) };
                let mut t = Tally::default();
                let mut i = next_item[w as usize];
                // progress marker file descriptor: write the current item index before each
                // item so the parent can attribute an abort (8 bytes, overwritten in place)
                while i < n {
                    unsafe {
                        libc::alarm(timeout_s);
                    }
                    let _ = pipe.write_all(&i.to_le_bytes());
                    if let Err(p) = crate::util::catch(|| f(i, &mut t)) {
                        t.violate("panic", format!("panic while processing item {} ({}): {}", i, describe(i), p), json!({"engine": "abort", "item": i, "what": describe(i)}));
                    }
                    i += k;
                }
                unsafe {
                    libc::alarm(0);
                }
                let _ = pipe.write_all(&u64::MAX.to_le_bytes());
                let s = serde_json::to_vec(&t.to_json()).unwrap();
                let _ = pipe.write_all(&s);
                unsafe { libc::_exit(0) };
            }
            unsafe {
                libc::close(fds[1]);
            }
            children.push((w, pid, fds[0]));
        }
        let bufs: Vec<(u64, i32, Vec<u8>)> = std::thread::scope(|sc| {
            let hs: Vec<_> = children
                .iter()
                .map(|&(w, pid, rfd)| {
                    sc.spawn(move || {
                        let mut f = unsafe { std::fs::File::from_raw_fd(rfd) };
                        // Only the last progress marker matters; keep memory bounded.
                        let mut last: u64 = u64::MAX - 1;
                        let mut tail: Vec<u8> = vec![];
                        let mut done = false;
                        let mut chunk = vec![0u8; 1 << 16];
                        let mut carry: Vec<u8> = vec![];
                        loop {
                            let n = match f.read(&mut chunk) {
                                Ok(0) | Err(_) => break,
                                Ok(n) => n,
                            };
                            if done {
                                tail.extend_from_slice(&chunk[..n]);
                                continue;
                            }
                            carry.extend_from_slice(&chunk[..n]);
                            let mut p = 0;
                            while carry.len() - p >= 8 {
                                let x = u64::from_le_bytes(carry[p..p + 8].try_into().unwrap());
                                p += 8;
                                if x == u64::MAX {
                                    done = true;
                                    tail.extend_from_slice(&carry[p..]);
                                    p = carry.len();
                                    break;
                                }
                                last = x;
                            }
                            carry.drain(..p);
                        }
                        let mut out = last.to_le_bytes().to_vec();
                        out.push(done as u8);
                        out.extend_from_slice(&tail);
                        (w, pid, out)
                    })
                })
                .collect();
            hs.into_iter().map(|h| h.join().unwrap()).collect()
        });
        for (w, pid, b) in bufs {
            let mut status = 0i32;
            unsafe {
                libc::waitpid(pid, &mut status, 0);
            }
            let last = u64::from_le_bytes(b[..8].try_into().unwrap());
            let done = b[8] == 1;
            if done {
                match serde_json::from_slice::<Value>(&b[9..]) {
                    Ok(v) => total.absorb(Tally::from_json(&v)),
                    Err(e) => total.machinery_errors.push(format!("worker {} sent an unreadable tally: {}", w, e)),
                }
                next_item[w as usize] = n;
            } else {
                // died while executing `last` (its partial tally is lost: redo its items after `last`)
                let sig = status & 0x7f;
                let why = if sig == libc::SIGALRM {
                    format!("hang: no result within {} s", timeout_s)
                } else if sig != 0 {
                    format!("process killed by signal {}", sig)
                } else {
                    format!("process exited with status {}", (status >> 8) & 0xff)
                };
                if last == u64::MAX - 1 {
                    total.machinery_errors.push(format!("worker {} died before its first item: {}", w, why));
                    next_item[w as usize] = n;
                } else {
                    total.violate(
                        &format!("process-abort:{}", why.split(':').next().unwrap_or("")),
                        format!("{} while processing item {}: {}", why, last, describe(last)),
                        json!({"engine": "abort", "item": last, "what": describe(last)}),
                    );
                    // The dead worker's tally is lost (counts of its completed items are not
                    // re-done: subject code never runs in the parent); continue after the culprit.
                    total.count("worker_deaths");
                    deaths += 1;
                    next_item[w as usize] = last + k;
                }
            }
        }
    }
    total
}
