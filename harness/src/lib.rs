#![allow(dead_code)]
//! Harness library: engines, reference models and per-property configurations.
pub mod connw;
pub mod connx;
pub mod explore;
pub mod par;
pub mod props;
pub mod spec;
pub mod srvx;
pub mod stream;
pub mod util;

use serde_json::Value;

/// Re-executes one stored violation (the `replay` object of a replay file) without the
/// explorer. Returns `None` when the file was recorded for the other build flavour.
pub fn replay_value(r: &Value) -> Option<(bool, Value)> {
    let want_small = r["config"]["buffer_size"].as_u64().map(|b| b == 32);
    if let Some(ws) = want_small {
        if ws != props::small_build() {
            return None;
        }
    }
    Some(match r["engine"].as_str() {
        Some("connx") => connx::replay(r),
        Some("connw") => connw::replay(r),
        Some("srvx") => srvx::replay(r),
        Some("entry") => props::c03::replay_entry(r),
        Some("c05") | Some("c05len") => props::c05::replay(r),
        Some("c14") => props::c14::replay(r),
        Some("c15line") | Some("c15block") => props::c15::replay(r),
        Some("c16tok") | Some("c16uri") => props::c16::replay(r),
        Some("c17") => props::c17::replay(r),
        Some("socketpair") => props::c12::replay_socketpair(r),
        other => (false, serde_json::json!({"error": format!("no replay for engine {:?}", other)})),
    })
}
