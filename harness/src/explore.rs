//! Generic explicit-state breadth-first explorer over *real executions*.
//!
//! A state is identified by the action path that reaches it from the initial state; a
//! transition is taken by re-executing `path + [action]` on fresh real objects (`System::run`)
//! and is de-duplicated on the canonical 128-bit key the run returns. Levels are processed in
//! parallel by forked, single-threaded worker processes (descriptor numbers are process global
//! and matter to the server engine, so threads are not used); results are merged in item order,
//! which makes state numbering and all counts independent of the number of workers.

use crate::util::{self, Violation};
use serde_json::{json, Value};
use std::collections::{BTreeMap, HashMap};
use std::hash::{BuildHasherDefault, Hasher};
use std::io::{Read, Write};
use std::os::unix::io::FromRawFd;
use std::time::Instant;

pub struct Outcome<A> {
    /// Canonical digest of the reached state.
    pub key: u128,
    /// Actions enabled in the reached state (empty = terminal).
    pub enabled: Vec<A>,
    pub violation: Option<Violation>,
    /// Hash of the observation sequence along the whole path.
    pub obs: u64,
    /// State is "non-trivial" by the system's stated rule.
    pub nontrivial: bool,
    /// Environment-coverage facts hit by the last step (bit i = `fact_names()[i]`).
    pub facts: u64,
    /// Implementation-coverage facts (informational).
    pub impl_facts: u64,
    /// Secondary digest of state that is not supposed to matter (e.g. dead bytes of a buffer).
    /// States that agree on `key` but differ here are kept apart, but only up to
    /// `Limits::max_variants` of them per `key` (bounded diversification).
    pub aux: u64,
}

pub trait System {
    type A: Copy + std::fmt::Debug;
    fn enc(a: Self::A) -> u64;
    fn dec(x: u64) -> Self::A;
    fn run(&self, path: &[Self::A]) -> Outcome<Self::A>;
    /// Step-by-step rendering (actions and observations) of one path, for samples and replays.
    fn trace(&self, path: &[Self::A]) -> Value;
    fn fact_names(&self) -> Vec<&'static str>;
    fn impl_fact_names(&self) -> Vec<&'static str> {
        vec![]
    }
    /// Replay description of a path (used when a worker dies while executing it).
    fn replay_of(&self, _path: &[Self::A]) -> Value {
        json!({"engine": "none"})
    }
    /// Worker processes close inherited descriptors so that numbering is reproducible.
    fn needs_clean_fds(&self) -> bool {
        false
    }
}

#[derive(Clone)]
pub struct Limits {
    pub max_states: usize,
    pub max_secs: f64,
    pub max_depth: usize,
    pub max_violations: usize,
    pub item_timeout_s: u32,
    pub max_variants: u8,
}

impl Default for Limits {
    fn default() -> Self {
        Limits {
            max_states: 20_000_000,
            max_secs: 3600.0,
            max_depth: usize::MAX,
            max_violations: 3,
            item_timeout_s: 30,
            max_variants: 4,
        }
    }
}

#[derive(Default)]
pub struct Stats {
    pub states: u64,
    pub transitions: u64,
    pub depth: usize,
    pub level_sizes: Vec<u64>,
    pub nontrivial_states: u64,
    pub distinct_obs: u64,
    pub terminal_states: u64,
    pub facts: BTreeMap<String, u64>,
    pub impl_facts: BTreeMap<String, u64>,
    pub violations: Vec<(Violation, Vec<u64>)>,
    pub machinery_errors: Vec<String>,
    pub cap_hit: Option<String>,
    pub exhaustive: bool,
    pub replayed_twice: u64,
    pub samples: Vec<Value>,
    pub wall_s: f64,
}

#[derive(Default)]
struct IdHasher(u64);
impl Hasher for IdHasher {
    fn finish(&self) -> u64 {
        self.0
    }
    fn write(&mut self, bytes: &[u8]) {
        for (i, b) in bytes.iter().take(8).enumerate() {
            self.0 ^= (*b as u64) << (8 * i);
        }
    }
    fn write_u128(&mut self, x: u128) {
        self.0 = (x as u64) ^ ((x >> 64) as u64);
    }
}
type KeyMap = HashMap<u128, u32, BuildHasherDefault<IdHasher>>;

struct Node {
    parent: u32,
    action: u64,
    depth: u32,
}

/// Summary of one executed item as sent back by a worker.
struct Rec {
    item: u32,
    key: u128,
    base: u128,
    obs: u64,
    facts: u64,
    impl_facts: u64,
    nontrivial: bool,
    enabled: Vec<u64>,
    violation: Option<Violation>,
    nondeterministic: bool,
}

fn put_u32(v: &mut Vec<u8>, x: u32) {
    v.extend_from_slice(&x.to_le_bytes());
}
fn put_u64(v: &mut Vec<u8>, x: u64) {
    v.extend_from_slice(&x.to_le_bytes());
}

fn encode(r: &Rec, out: &mut Vec<u8>) {
    put_u32(out, r.item);
    out.extend_from_slice(&r.key.to_le_bytes());
    out.extend_from_slice(&r.base.to_le_bytes());
    put_u64(out, r.obs);
    put_u64(out, r.facts);
    put_u64(out, r.impl_facts);
    out.push(r.nontrivial as u8 | (r.nondeterministic as u8) << 1);
    put_u32(out, r.enabled.len() as u32);
    for e in &r.enabled {
        put_u64(out, *e);
    }
    match &r.violation {
        None => put_u32(out, 0),
        Some(v) => {
            let s = serde_json::to_vec(&json!({"signature": v.signature, "detail": v.detail, "replay": v.replay})).unwrap();
            put_u32(out, s.len() as u32);
            out.extend_from_slice(&s);
        }
    }
}

fn decode_all(buf: &[u8]) -> Vec<Rec> {
    let mut recs = vec![];
    let mut p = 0usize;
    let rd32 = |p: &mut usize| {
        let x = u32::from_le_bytes(buf[*p..*p + 4].try_into().unwrap());
        *p += 4;
        x
    };
    let rd64 = |p: &mut usize| {
        let x = u64::from_le_bytes(buf[*p..*p + 8].try_into().unwrap());
        *p += 8;
        x
    };
    while p < buf.len() {
        // A worker that died mid-record leaves a truncated tail: ignore it (the item is re-run).
        let need_fixed = 4 + 16 + 16 + 8 + 8 + 8 + 1 + 4;
        if buf.len() - p < need_fixed {
            break;
        }
        let start = p;
        let item = rd32(&mut p);
        let key = u128::from_le_bytes(buf[p..p + 16].try_into().unwrap());
        p += 16;
        let base = u128::from_le_bytes(buf[p..p + 16].try_into().unwrap());
        p += 16;
        let obs = rd64(&mut p);
        let facts = rd64(&mut p);
        let impl_facts = rd64(&mut p);
        let flags = buf[p];
        p += 1;
        let n = rd32(&mut p) as usize;
        if buf.len() - p < n * 8 + 4 {
            let _ = start;
            break;
        }
        let mut enabled = Vec::with_capacity(n);
        for _ in 0..n {
            enabled.push(rd64(&mut p));
        }
        let vl = rd32(&mut p) as usize;
        if buf.len() - p < vl {
            break;
        }
        let violation = if vl > 0 {
            let v: Value = serde_json::from_slice(&buf[p..p + vl]).unwrap();
            p += vl;
            Some(Violation {
                signature: v["signature"].as_str().unwrap().to_string(),
                detail: v["detail"].as_str().unwrap().to_string(),
                replay: v["replay"].clone(),
            })
        } else {
            None
        };
        recs.push(Rec {
            item,
            key,
            base,
            obs,
            facts,
            impl_facts,
            nontrivial: flags & 1 != 0,
            nondeterministic: flags & 2 != 0,
            enabled,
            violation,
        });
    }
    recs
}

/// Set (in the parent, before forking) to run one path exactly once in a pristine process:
/// no in-process replays, always a forked worker.
static PRISTINE_SINGLE_RUN: std::sync::atomic::AtomicBool = std::sync::atomic::AtomicBool::new(false);

fn run_item<S: System>(sys: &S, item: u32, path: &[S::A]) -> Rec {
    let o = sys.run(path);
    let mut nondeterministic = false;
    let mut violation = o.violation;
    let single = PRISTINE_SINGLE_RUN.load(std::sync::atomic::Ordering::Relaxed);
    if let (Some(v), false) = (&violation, single) {
        // Re-execute twice from scratch before believing a violation.
        for _ in 0..2 {
            let o2 = sys.run(path);
            let same = o2.key == o.key
                && o2.obs == o.obs
                && o2.violation.as_ref().map(|x| x.signature.clone()) == Some(v.signature.clone());
            if !same {
                nondeterministic = true;
            }
        }
    }
    if nondeterministic {
        if let Some(v) = &mut violation {
            v.detail = format!("NONDETERMINISTIC REPLAY: {}", v.detail);
        }
    }
    let full = if o.aux == 0 { o.key } else { util::hash128(&[&o.key.to_le_bytes(), &o.aux.to_le_bytes()]) };
    Rec {
        item,
        key: full,
        base: o.key,
        obs: o.obs,
        facts: o.facts,
        impl_facts: o.impl_facts,
        nontrivial: o.nontrivial,
        enabled: o.enabled.iter().map(|a| S::enc(*a)).collect(),
        violation,
        nondeterministic,
    }
}

fn close_inherited_fds(keep: i32) {
    let mut fds = vec![];
    if let Ok(rd) = std::fs::read_dir("/proc/self/fd") {
        for e in rd.flatten() {
            if let Ok(n) = e.file_name().to_string_lossy().parse::<i32>() {
                fds.push(n);
            }
        }
    }
    for fd in fds {
        if fd > 2 && fd != keep {
            unsafe {
                libc::close(fd);
            }
        }
    }
}

const RESULT_FD: i32 = 1000;

/// Executes `n` items (`path_of(i)` gives the action path of item i) and returns their records
/// in item order. With `workers > 1` items are distributed round-robin over forked children.
fn exec_batch<S: System>(
    sys: &S,
    n: usize,
    path_of: &(dyn Fn(usize) -> Vec<S::A> + Sync),
    workers: usize,
    timeout_s: u32,
    errors: &mut Vec<String>,
    seen: Option<&KeyMap>,
) -> Vec<Option<Rec>> {
    let mut out: Vec<Option<Rec>> = (0..n).map(|_| None).collect();
    // Narrow levels (deep, thin graphs such as byte-by-byte write schedules) are executed in
    // the parent: forking a large process thousands of times costs far more than the work.
    // Engines whose observations depend on the descriptor table always run in workers.
    let pristine = PRISTINE_SINGLE_RUN.load(std::sync::atomic::Ordering::Relaxed);
    let nofork = !pristine && (std::env::var("MHV_NOFORK").is_ok() || (!sys.needs_clean_fds() && n < 192));
    if nofork {
        for i in 0..n {
            out[i] = Some(run_item(sys, i as u32, &path_of(i)));
        }
        return out;
    }
    let k = workers.min(n / 24 + 1).min(n.max(1));
    // pending[w] = item indices assigned to worker w that still have to be executed
    let mut pending: Vec<Vec<usize>> = (0..k).map(|w| (w..n).step_by(k).collect()).collect();
    let mut deaths = 0u32;
    loop {
        if deaths >= 3 {
            // the subject keeps killing or hanging workers: violations are recorded; give up on
            // the rest of this batch (reported through `gave_up`)
            errors.push("GAVE-UP".into());
            break;
        }
        let active: Vec<usize> = (0..k).filter(|w| !pending[*w].is_empty()).collect();
        if active.is_empty() {
            break;
        }
        let mut children: Vec<(usize, i32, i32)> = vec![]; // (worker, pid, read fd)
        for &w in &active {
            let mut fds = [0i32; 2];
            assert_eq!(unsafe { libc::pipe(fds.as_mut_ptr()) }, 0, "pipe failed");
            let _ = std::io::stdout().flush();
            let pid = unsafe { libc::fork() };
            assert!(pid >= 0, "fork failed");
            if pid == 0 {
                // ---- worker process: single-threaded, normalised descriptor table ----
                unsafe {
                    libc::close(fds[0]);
                    libc::dup2(fds[1], RESULT_FD);
                    libc::close(fds[1]);
                }
                if sys.needs_clean_fds() {
                    close_inherited_fds(RESULT_FD);
                }
                let mut pipe = unsafe { std::fs::File::from_raw_fd(RESULT_FD) };
                let mut buf = Vec::with_capacity(1 << 16);
                let mut local_new: std::collections::HashSet<u128> = Default::default();
                for &i in &pending[w] {
                    unsafe {
                        libc::alarm(timeout_s);
                    }
                    let mut rec = run_item(sys, i as u32, &path_of(i));
                    if let Some(seen) = seen {
                        // Only the first occurrence of a new state needs its enabled list.
                        if seen.contains_key(&rec.key) || !local_new.insert(rec.key) {
                            rec.enabled = vec![];
                        }
                    }
                    encode(&rec, &mut buf);
                    if buf.len() >= 1 << 15 {
                        if pipe.write_all(&buf).is_err() {
                            unsafe { libc::_exit(3) };
                        }
                        buf.clear();
                    }
                }
                unsafe {
                    libc::alarm(0);
                }
                let _ = pipe.write_all(&buf);
                let _ = pipe.flush();
                unsafe { libc::_exit(0) };
            }
            unsafe {
                libc::close(fds[1]);
            }
            children.push((w, pid, fds[0]));
        }
        // Read all pipes concurrently (threads exist only between forks).
        let bufs: Vec<(usize, i32, Vec<u8>)> = std::thread::scope(|sc| {
            let hs: Vec<_> = children
                .iter()
                .map(|&(w, pid, rfd)| {
                    sc.spawn(move || {
                        let mut f = unsafe { std::fs::File::from_raw_fd(rfd) };
                        let mut b = Vec::new();
                        let _ = f.read_to_end(&mut b);
                        (w, pid, b)
                    })
                })
                .collect();
            hs.into_iter().map(|h| h.join().unwrap()).collect()
        });
        for (w, pid, b) in bufs {
            let mut status = 0i32;
            unsafe {
                libc::waitpid(pid, &mut status, 0);
            }
            let recs = decode_all(&b);
            let done = recs.len();
            for r in recs {
                let i = r.item as usize;
                out[i] = Some(r);
            }
            let exited = status & 0x7f == 0;
            let exit_code = (status >> 8) & 0xff;
            let term_sig = status & 0x7f;
            let clean = exited && exit_code == 0;
            if clean && done == pending[w].len() {
                pending[w].clear();
            } else if done < pending[w].len() {
                // The worker died while executing item pending[w][done].
                let culprit = pending[w][done];
                let why = if !exited {
                    let sig = term_sig;
                    if sig == libc::SIGALRM {
                        format!("hang: no result within {} s (SIGALRM)", timeout_s)
                    } else {
                        format!("worker killed by signal {}", sig)
                    }
                } else {
                    format!("worker exited with status {}", exit_code)
                };
                deaths += 1;
                let path = path_of(culprit);
                out[culprit] = Some(Rec {
                    item: culprit as u32,
                    key: util::hash128(&[b"abort", &(culprit as u64).to_le_bytes()]),
                    base: util::hash128(&[b"abort", &(culprit as u64).to_le_bytes()]),
                    obs: 0,
                    facts: 0,
                    impl_facts: 0,
                    nontrivial: false,
                    enabled: vec![],
                    nondeterministic: false,
                    violation: Some(Violation {
                        signature: format!("process-abort:{}", why.split(':').next().unwrap_or("")),
                        detail: format!("{} while executing path {:?}", why, path),
                        replay: {
                            let mut r = sys.replay_of(&path);
                            r["abort"] = json!(why);
                            r
                        },
                    }),
                });
                pending[w] = pending[w][done + 1..].to_vec();
            } else {
                errors.push(format!("worker {} ended with status {} after completing its items", w, status));
                pending[w].clear();
            }
        }
    }
    out
}

pub fn bfs<S: System>(sys: &S, limits: &Limits, workers: usize) -> Stats {
    let t0 = Instant::now();
    let mut st = Stats::default();
    let fact_names = sys.fact_names();
    let impl_names = sys.impl_fact_names();
    let mut fact_counts = vec![0u64; 64];
    let mut impl_counts = vec![0u64; 64];
    let mut nodes: Vec<Node> = vec![];
    let mut node_keys: Vec<u128> = vec![];
    let mut seen: KeyMap = KeyMap::default();
    let mut variants: HashMap<u128, u8, BuildHasherDefault<IdHasher>> = Default::default();
    let mut obs_seen: std::collections::HashSet<u64> = Default::default();
    let path_of_node = |nodes: &Vec<Node>, mut n: u32| -> Vec<u64> {
        let mut p = vec![];
        while n != 0 {
            p.push(nodes[n as usize].action);
            n = nodes[n as usize].parent;
        }
        p.reverse();
        p
    };
    // root
    let root = run_item(sys, 0, &[]);
    nodes.push(Node { parent: 0, action: 0, depth: 0 });
    node_keys.push(root.key);
    seen.insert(root.key, 0);
    obs_seen.insert(root.obs);
    st.states = 1;
    if let Some(v) = root.violation {
        st.violations.push((v, vec![]));
    }
    let mut frontier: Vec<(u32, Vec<u64>)> = vec![(0, root.enabled)];
    let mut deepest: u32 = 0;
    let mut first_nontrivial: Option<u32> = None;
    let mut capped = false;
    st.level_sizes.push(1);
    while !frontier.is_empty() {
        let depth = nodes[frontier[0].0 as usize].depth as usize;
        if depth >= limits.max_depth {
            st.cap_hit = Some(format!("depth bound {} reached with {} frontier states unexpanded", limits.max_depth, frontier.len()));
            capped = true;
            break;
        }
        if !st.violations.is_empty() {
            break;
        }
        let items: Vec<(u32, u64)> = frontier
            .iter()
            .flat_map(|(n, en)| en.iter().map(move |a| (*n, *a)))
            .collect();
        // Process the level in chunks so caps can take effect inside very wide levels.
        let chunk = 400_000usize;
        let mut next: Vec<(u32, Vec<u64>)> = vec![];
        let mut stop = false;
        for part in items.chunks(chunk) {
            let path_of = |i: usize| -> Vec<S::A> {
                let (n, a) = part[i];
                let mut p: Vec<S::A> = path_of_node(&nodes, n).into_iter().map(S::dec).collect();
                p.push(S::dec(a));
                p
            };
            let recs = exec_batch(sys, part.len(), &path_of, workers, limits.item_timeout_s, &mut st.machinery_errors, Some(&seen));
            let gave_up = st.machinery_errors.iter().any(|e| e == "GAVE-UP");
            st.machinery_errors.retain(|e| e != "GAVE-UP");
            if gave_up {
                st.cap_hit = Some("exploration cut short: the subject repeatedly killed or hung worker processes".into());
                stop = true;
            }
            for (i, r) in recs.into_iter().enumerate() {
                let r = match r {
                    Some(r) => r,
                    None => {
                        if !gave_up {
                            st.machinery_errors.push(format!("item {} produced no record", i));
                        }
                        continue;
                    }
                };
                st.transitions += 1;
                for b in 0..64 {
                    if r.facts >> b & 1 == 1 {
                        fact_counts[b] += 1;
                    }
                    if r.impl_facts >> b & 1 == 1 {
                        impl_counts[b] += 1;
                    }
                }
                let mut r = r;
                if r.nondeterministic {
                    // Re-executions inside one worker process disagreed. Either the harness does
                    // not own some source of nondeterminism (machinery error), or the subject keeps
                    // state in the process that outlives its objects (statics, thread-locals).
                    // Decide in two pristine processes (forks of this parent, which never runs
                    // subject code), one execution each.
                    let one_path: Vec<u64> = {
                        let (n, a) = part[i];
                        let mut p = path_of_node(&nodes, n);
                        p.push(a);
                        p
                    };
                    let single = |_: usize| -> Vec<S::A> { one_path.iter().map(|x| S::dec(*x)).collect() };
                    PRISTINE_SINGLE_RUN.store(true, std::sync::atomic::Ordering::Relaxed);
                    let mut errs = vec![];
                    let a = exec_batch(sys, 1, &single, 1, limits.item_timeout_s, &mut errs, None).pop().flatten();
                    let b = exec_batch(sys, 1, &single, 1, limits.item_timeout_s, &mut errs, None).pop().flatten();
                    PRISTINE_SINGLE_RUN.store(false, std::sync::atomic::Ordering::Relaxed);
                    let agree = match (&a, &b) {
                        (Some(x), Some(y)) => x.key == y.key && x.obs == y.obs && x.violation.as_ref().map(|v| v.signature.clone()) == y.violation.as_ref().map(|v| v.signature.clone()),
                        _ => false,
                    };
                    match (agree, a) {
                        (true, Some(mut x)) if x.violation.is_some() => {
                            if let Some(v) = &mut x.violation {
                                v.detail = format!("[reproduced identically in two fresh processes; repeated executions inside one process differ, i.e. the outcome depends on state that outlives the connection/server objects] {}", v.detail);
                            }
                            x.nondeterministic = false;
                            r = x;
                        }
                        (true, Some(_)) => {
                            // in a fresh process the path does not violate: the violation needs
                            // state left behind by earlier executions in the same process
                            if let Some(v) = &mut r.violation {
                                v.signature = format!("process-state-dependent:{}", v.signature);
                                v.detail = format!("[this history violates only after other histories ran in the same process: state outlives the connection/server objects] {}", v.detail.replace("NONDETERMINISTIC REPLAY: ", ""));
                            }
                            r.nondeterministic = false;
                        }
                        _ => {
                            st.machinery_errors.push(format!(
                                "nondeterministic replay of a violating path (also across fresh processes): {}",
                                r.violation.as_ref().map(|v| v.detail.clone()).unwrap_or_default()
                            ));
                            continue;
                        }
                    }
                }
                let (pn, pa) = part[i];
                if let Some(v) = r.violation {
                    if st.violations.len() < limits.max_violations
                        && !st.violations.iter().any(|(x, _)| x.signature == v.signature)
                    {
                        let mut p = path_of_node(&nodes, pn);
                        p.push(pa);
                        st.violations.push((v, p));
                    }
                    continue; // violating states are not expanded
                }
                if seen.contains_key(&r.key) {
                    continue;
                }
                if r.key != r.base {
                    let v = variants.entry(r.base).or_insert(0);
                    if *v >= limits.max_variants {
                        continue; // enough representatives of this state with different dead data
                    }
                    *v += 1;
                }
                let id = nodes.len() as u32;
                seen.insert(r.key, id);
                nodes.push(Node { parent: pn, action: pa, depth: depth as u32 + 1 });
                node_keys.push(r.key);
                st.states += 1;
                obs_seen.insert(r.obs);
                if r.nontrivial {
                    st.nontrivial_states += 1;
                    if first_nontrivial.is_none() {
                        first_nontrivial = Some(id);
                    }
                }
                deepest = id;
                if r.enabled.is_empty() {
                    st.terminal_states += 1;
                } else {
                    next.push((id, r.enabled));
                }
            }
            if st.states as usize >= limits.max_states {
                st.cap_hit = Some(format!("state cap {} hit at depth {}", limits.max_states, depth + 1));
                stop = true;
            }
            if t0.elapsed().as_secs_f64() > limits.max_secs {
                st.cap_hit = Some(format!("time cap {} s hit at depth {}", limits.max_secs, depth + 1));
                stop = true;
            }
            if stop {
                break;
            }
        }
        st.depth = depth + 1;
        st.level_sizes.push(next.len() as u64);
        if stop {
            capped = true;
            break;
        }
        frontier = next;
    }
    for (i, n) in fact_names.iter().enumerate() {
        st.facts.insert(n.to_string(), fact_counts[i]);
    }
    for (i, n) in impl_names.iter().enumerate() {
        st.impl_facts.insert(n.to_string(), impl_counts[i]);
    }
    st.distinct_obs = obs_seen.len() as u64;
    st.exhaustive = !capped && st.violations.is_empty();
    // Determinism self-check: re-execute a spread of stored paths and compare keys.
    let total = nodes.len();
    let picks: Vec<u32> = if total <= 64 {
        (0..total as u32).collect()
    } else {
        (0..64).map(|i| (i * (total - 1) / 63) as u32).collect()
    };
    {
        let path_of = |i: usize| -> Vec<S::A> { path_of_node(&nodes, picks[i]).into_iter().map(S::dec).collect() };
        let recs = exec_batch(sys, picks.len(), &path_of, workers.min(4), limits.item_timeout_s, &mut st.machinery_errors, None);
        for (i, r) in recs.into_iter().enumerate() {
            if let Some(r) = r {
                if r.violation.is_none() {
                    if r.key != node_keys[picks[i] as usize] {
                        st.machinery_errors.push(format!(
                            "replay divergence: node {} path {:?} gave a different state key on re-execution",
                            picks[i],
                            path_of(i)
                        ));
                    } else {
                        st.replayed_twice += 1;
                    }
                }
            }
        }
    }
    // Samples: shortest non-trivial path, a mid path and the deepest one.
    let mut sample_nodes = vec![];
    if let Some(n) = first_nontrivial {
        sample_nodes.push(n);
    }
    if total > 2 {
        sample_nodes.push((total / 2) as u32);
    }
    sample_nodes.push(deepest);
    sample_nodes.dedup();
    for n in sample_nodes {
        let p: Vec<S::A> = path_of_node(&nodes, n).into_iter().map(S::dec).collect();
        st.samples.push(sys.trace(&p));
    }
    st.wall_s = t0.elapsed().as_secs_f64();
    st
}

/// Folds explorer statistics of one graph into an evidence part.
pub fn record(part: &mut crate::util::Part, label: &str, st: &Stats) {
    part.add("states", st.states);
    part.add("transitions", st.transitions);
    part.add("traces_validated_against_impl", st.transitions);
    part.add("replayed_twice", st.replayed_twice);
    part.add("distinct_nontrivial", st.nontrivial_states);
    part.add("evaluations", st.transitions);
    part.add("distinct_observations", st.distinct_obs);
    part.add("terminal_states", st.terminal_states);
    part.add("graphs", 1);
    part.and_flag("exhaustive", st.exhaustive);
    part.merge_counts("env_coverage", &st.facts);
    part.merge_counts("impl_coverage", &st.impl_facts);
    let maxd = part.get("max_depth").max(st.depth as u64);
    part.set("max_depth", json!(maxd));
    if let Some(c) = &st.cap_hit {
        part.push("caps_hit", json!(format!("{}: {}", label, c)));
    }
    let room = 6usize.saturating_sub(part.coverage.get("samples").and_then(|v| v.as_array()).map(|a| a.len()).unwrap_or(0));
    for s in st.samples.iter().take(room.min(2)) {
        part.push("samples", json!({"graph": label, "trace": s}));
    }
    part.push(
        "graph_summaries",
        json!({"graph": label, "states": st.states, "transitions": st.transitions, "depth": st.depth,
               "exhaustive": st.exhaustive, "wall_s": (st.wall_s * 100.0).round() / 100.0}),
    );
    for e in &st.machinery_errors {
        part.machinery_errors.push(format!("{}: {}", label, e));
    }
}

/// Vacuity guard: every listed environment fact must have occurred at least once in the graph;
/// otherwise the configuration did not exercise what it claims and the run is a machinery
/// failure (exit 2), never a verdict. Skipped when the exploration stopped early on a violation.
pub fn require_facts(part: &mut crate::util::Part, label: &str, st: &Stats, required: &[&str]) {
    if !st.violations.is_empty() || !st.exhaustive {
        // an exploration cut short by a cap or a violation may legitimately miss facts; the cap
        // itself is reported in `caps_hit`
        return;
    }
    // Whether an environment situation can arise at all may depend on the implementation (how
    // many bytes it takes per read, when it sweeps, ...): a situation that never occurred is a
    // coverage warning in the evidence (`coverage_warnings`, printed by the driver), not a
    // failure of the check - only an exploration with a single observation is treated as broken.
    let missing: Vec<&str> = required.iter().cloned().filter(|r| !matches!(st.facts.get(*r), Some(n) if *n > 0)).collect();
    for r in &missing {
        part.push("coverage_warnings", serde_json::json!(format!("{}: environment situation `{}` never occurred in this exploration", label, r)));
    }
    if st.distinct_obs < 2 && st.states > 1 {
        part.machinery_errors.push(format!("{}: vacuous exploration: a single distinct observation sequence over {} states", label, st.states));
    }
}

/// Digest-free companion: depth-bounded enumeration of EVERY action sequence (no state
/// de-duplication at all), each executed from scratch with all oracles. Protects against state
/// the digest does not see (which would make the graph search merge states that differ).
pub fn stateless_dfs<S: System + Sync>(sys: &S, depth: usize, workers: usize) -> crate::par::Tally {
    fn dfs<S: System>(sys: &S, path: &mut Vec<S::A>, depth: usize, t: &mut crate::par::Tally) {
        let o = sys.run(path);
        t.evals += 1;
        if o.nontrivial {
            t.nontrivial += 1;
        }
        t.outcome(o.obs % 4096);
        if let Some(v) = o.violation {
            t.violate(&v.signature, v.detail, v.replay);
            return;
        }
        if path.len() >= depth {
            return;
        }
        for a in o.enabled {
            path.push(a);
            dfs(sys, path, depth, t);
            path.pop();
        }
    }
    // prefixes of length <= 3 distribute the work
    let mut prefixes: Vec<Vec<u64>> = vec![vec![]];
    let mut tally0 = crate::par::Tally::default();
    for _ in 0..3.min(depth) {
        let mut next = vec![];
        for p in &prefixes {
            let path: Vec<S::A> = p.iter().map(|x| S::dec(*x)).collect();
            let o = sys.run(&path);
            if let Some(v) = o.violation {
                tally0.violate(&v.signature, v.detail, v.replay);
                continue;
            }
            for a in o.enabled {
                let mut q = p.clone();
                q.push(S::enc(a));
                next.push(q);
            }
        }
        if next.is_empty() {
            break;
        }
        prefixes = next;
    }
    let pre = prefixes.clone();
    let mut t = crate::par::par_enum(
        prefixes.len() as u64,
        workers,
        600,
        |i, t| {
            let mut path: Vec<S::A> = pre[i as usize].iter().map(|x| S::dec(*x)).collect();
            dfs(sys, &mut path, depth, t);
            if i == 1 {
                t.sample(json!({"prefix": format!("{:?}", path), "depth": depth}));
            }
        },
        |i| format!("stateless history prefix #{}", i),
    );
    t.absorb(tally0);
    t
}

pub fn record_stateless(part: &mut crate::util::Part, label: &str, depth: usize, t: &crate::par::Tally) {
    part.add("stateless_runs", t.evals);
    part.add("traces_validated_against_impl", t.evals);
    part.add("transitions", t.evals);
    part.push("stateless_companions", json!({"graph": label, "depth": depth, "runs": t.evals, "distinct_outcome_classes": t.outcomes.len()}));
    for v in &t.violations {
        part.violations.push(v.clone());
    }
    for e in &t.machinery_errors {
        part.machinery_errors.push(format!("{}: {}", label, e));
    }
}
