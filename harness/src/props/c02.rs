//! C02 — accepted requests are exactly those of the documented grammar, fields verbatim;
//! otherwise the first offending element is named, after delivering what precedes it.
use crate::connx::{self, Cfg};
use crate::explore::{bfs, record, Limits};
use crate::par::par_enum;
use crate::props::{alphabet, gen, small_build};
use crate::spec::stream as ss;
use crate::util::{self, workers, Part};
use serde_json::json;

pub fn run(thorough: bool) -> Vec<Part> {
    let mut parts = vec![];
    if small_build() {
        let mut part = Part::new("C02", "grammar-alphabet-s", "model_checking");
        part.assume("S-build: BUFFER_SIZE = 32, payload limit 40: all sequences over an alphabet of good and bad request lines, header lines, blank lines and bodies x all read sizes, explored to fixpoint; both directions of the iff are decided in every state by comparison with the reference grammar");
        part.assume("Content-Length values with a leading '+' are not in the alphabet (the property text does not settle them)");
        part.assume("error kinds are compared by the element at fault; `InvalidRequest` names both a malformed/overlong request line and an empty Accept-Encoding value");
        let mut cfg = Cfg::base("C02", "grammar-alphabet", alphabet::grammar(if thorough { 1 } else { 0 }), 40);
        cfg.empty_reads = false;
        // the application answers what it pops; the write of an answer / interim response may fail
        cfg.answer_requests = true;
        cfg.write_faults = true;
        let limits = Limits { max_states: 12_000_000, max_secs: if thorough { 1500.0 } else { 120.0 }, ..Default::default() };
        let st = bfs(&cfg, &limits, workers());
        record(&mut part, "grammar-alphabet", &st);
        if thorough {
            let mut full = Cfg::base("C02", "grammar-alphabet-full", alphabet::grammar(2), 40);
            full.empty_reads = false;
            let stf = bfs(&full, &Limits { max_states: 5_000_000, max_secs: 600.0, ..Default::default() }, workers());
            record(&mut part, "grammar-alphabet-full (capped)", &stf);
            for (v, _) in &stf.violations {
                part.violations.push(v.clone());
            }
        }
        {
            let tl = crate::connx::stateless_sequences(&cfg, if thorough { 4 } else { 3 }, workers());
            crate::connx::record_stateless(&mut part, &cfg.label, &tl);
        }
        for (v, _) in &st.violations {
            part.violations.push(v.clone());
        }
        // harness self-test: the two formulations of the reference agree on all piece
        // sequences of length <= 3 (4 in the thorough tier)
        let pieces = cfg.pieces.clone();
        let n = pieces.len() as u64;
        let depth = if thorough { 4 } else { 3 };
        let total: u64 = (1..=depth).map(|d| n.pow(d)).sum();
        let t = par_enum(
            total,
            workers(),
            60,
            |i, t| {
                let mut i = i;
                let mut d = 1;
                while i >= n.pow(d) {
                    i -= n.pow(d);
                    d += 1;
                }
                let mut bytes = vec![];
                for _ in 0..d {
                    bytes.extend_from_slice(&pieces[(i % n) as usize].bytes);
                    i /= n;
                }
                t.evals += 1;
                if let Err(e) = ss::cross_check(&bytes, 40, connx::buffer_size()) {
                    t.machinery_errors.push(e);
                }
            },
            |i| format!("piece sequence #{}", i),
        );
        part.set("reference_self_test_sequences", json!(t.evals));
        for e in t.machinery_errors.iter().take(3) {
            part.machinery_errors.push(e.clone());
        }
        parts.push(part);
    } else {
        let mut part = Part::new("C02", "corruptions-r", "model_checking");
        part.assume("R-build: for every base request of the grammar and every single-point corruption (delete / replace by one of SP CR LF ':' 'a' NUL 0xFF / insert one of those / flip letter case, at every byte position, plus appends), the stream valid-request + corrupted + valid-request is fed greedily and in one-byte reads and compared step by step with the reference");
        let bases = gen::bases(true);
        let _ = thorough;
        let head = b"GET /head HTTP/1.1\r\nX-h: 1\r\n\r\n".to_vec();
        let tail = b"PUT /tail HTTP/1.0\r\nContent-Length: 2\r\n\r\nok".to_vec();
        let mut items: Vec<(usize, usize)> = vec![];
        for (bi, b) in bases.iter().enumerate() {
            for k in 0..gen::corruption_count(b.bytes.len()) {
                items.push((bi, k));
            }
        }
        part.set("base_requests", json!(bases.len()));
        let block = 64usize;
        let nblocks = (items.len() + block - 1) / block;
        let t = par_enum(
            nblocks as u64,
            workers(),
            120,
            |bi, t| {
                for &(b, k) in items.iter().skip(bi as usize * block).take(block) {
                    let (what, mid) = match gen::corrupt(&bases[b].bytes, k) {
                        Some(x) => x,
                        None => continue,
                    };
                    let mut stream = head.clone();
                    stream.extend_from_slice(&mid);
                    stream.extend_from_slice(&tail);
                    if let Err(e) = ss::cross_check(&stream, 51200, connx::buffer_size()) {
                        t.machinery_errors.push(e);
                        continue;
                    }
                    let evs = ss::parse_all(&stream, 51200, connx::buffer_size());
                    if evs.iter().any(|(_, e)| matches!(e, ss::Event::Unjudged)) {
                        t.count("unjudged_inputs_skipped");
                        continue;
                    }
                    let has_err = evs.iter().any(|(_, e)| matches!(e, ss::Event::Error(_)));
                    let nreq = evs.iter().filter(|(_, e)| matches!(e, ss::Event::Request(_))).count();
                    let mut cfg = Cfg::base("C02", &format!("{}:{}", bases[b].name, what), vec![], 51200);
                    cfg.stream = Some(stream.clone());
                    cfg.empty_reads = false;
                    for sched in 0..2 {
                        let segs: Vec<usize> = if sched == 0 { vec![stream.len()] } else { vec![1; stream.len()] };
                        let (v, obs, _n, acts) = connx::run_segments(&cfg, &segs, false);
                        t.evals += 1;
                        t.outcome(obs % 1024);
                        if let Some((sig, detail)) = v {
                            t.violate(&sig, format!("[{} / {} / {}] {}", bases[b].name, what, if sched == 0 { "greedy" } else { "1-byte reads" }, detail), connx::schedule_replay(&cfg, &acts));
                        }
                    }
                    if has_err {
                        t.count(&format!("reference_says_error_after_{}_requests", nreq));
                    } else {
                        t.count(&format!("reference_says_{}_requests_no_error", nreq));
                    }
                    if k != 0 {
                        t.nontrivial += 1;
                    }
                    if k == 1 + 40 {
                        t.sample(json!({"base": bases[b].name, "corruption": what, "stream": util::show(&stream), "reference": format!("{:?}", evs.iter().map(|(at, e)| (at, match e { ss::Event::Request(r) => format!("Request {:?} {}", r.method, r.uri), o => format!("{:?}", o)})).collect::<Vec<_>>())}));
                    }
                }
            },
            |bi| format!("block {} of corrupted requests", bi),
        );
        t.record(&mut part, "single-point-corruptions");
        // Content-Length edge values
        let edges = gen::content_length_edges();
        let t2 = par_enum(
            edges.len() as u64,
            workers().min(edges.len()),
            120,
            |i, t| {
                let (val, blen) = edges[i as usize];
                let mut stream = format!("PUT /cl HTTP/1.1\r\nContent-Length:{}\r\n\r\n", val).into_bytes();
                stream.extend(std::iter::repeat(b'b').take(blen));
                stream.extend_from_slice(&tail);
                let mut cfg = Cfg::base("C02", &format!("content-length `{}`", val), vec![], 51200);
                cfg.stream = Some(stream.clone());
                cfg.empty_reads = false;
                for sched in 0..2 {
                    let segs: Vec<usize> = if sched == 0 { vec![stream.len()] } else { vec![1; stream.len().min(4000)] };
                    let (v, obs, n, acts) = connx::run_segments(&cfg, &segs, false);
                    t.evals += 1;
                    t.nontrivial += 1;
                    t.outcome(obs % 1024);
                    t.count(&format!("delivered_{}", n));
                    if let Some((sig, detail)) = v {
                        t.violate(&sig, format!("[Content-Length `{}`] {}", val, detail), connx::schedule_replay(&cfg, &acts));
                    }
                }
                t.sample(json!({"content_length_value": val, "body_bytes_supplied": blen}));
            },
            |i| format!("content-length edge #{}", i),
        );
        t2.record(&mut part, "content-length-edges");
        // many distinct custom headers in one request
        {
            let mut t3 = crate::par::Tally::default();
            for count in [10usize, 64, 65, 66, 128, 200, 300] {
                let mut stream = b"GET /many HTTP/1.1\r\n".to_vec();
                for i in 0..count {
                    stream.extend_from_slice(format!("X-H{}: v{}\r\n", i, i).as_bytes());
                }
                stream.extend_from_slice(b"\r\n");
                stream.extend_from_slice(&tail);
                let mut cfg = Cfg::base("C02", &format!("{} distinct custom headers", count), vec![], 51200);
                cfg.stream = Some(stream.clone());
                cfg.empty_reads = false;
                for segs in [vec![stream.len()], vec![100; stream.len() / 100 + 1]] {
                    let (v, _, _, acts) = connx::run_segments(&cfg, &segs, false);
                    t3.evals += 1;
                    t3.nontrivial += 1;
                    if let Some((sig, detail)) = v {
                        t3.violate(&sig, format!("[{} distinct custom headers] {}", count, &detail[..detail.len().min(600)]), connx::schedule_replay(&cfg, &acts));
                    }
                }
            }
            // bodies beyond the default limit on a connection whose limit was raised
            for (n, lim) in [(51200usize, 51200usize), (51300, 131072), (60000, 131072), (70000, 70000), (70001, 70000)] {
                let mut stream = format!("PUT /big HTTP/1.1\r\nContent-Length: {}\r\n\r\n", n).into_bytes();
                stream.extend((0..n).map(|j| (j % 253) as u8));
                stream.extend_from_slice(&tail);
                let mut cfg = Cfg::base("C02", &format!("{}-byte body under limit {}", n, lim), vec![], lim);
                cfg.stream = Some(stream.clone());
                cfg.empty_reads = false;
                for segs in [vec![stream.len()], vec![1000; stream.len() / 1000 + 1]] {
                    let (v, _, _, acts) = connx::run_segments(&cfg, &segs, false);
                    t3.evals += 1;
                    t3.nontrivial += 1;
                    if let Some((sig, detail)) = v {
                        t3.violate(&sig, format!("[{}-byte body under limit {}] {}", n, lim, &detail[..detail.len().min(600)]), connx::schedule_replay(&cfg, &acts[..acts.len().min(300)]));
                    }
                }
            }
            t3.sample(json!({"distinct_custom_headers": [10, 64, 65, 66, 128, 200, 300]}));
            t3.record(&mut part, "many-custom-headers");
        }
        part.set("rule", json!("every base request x every single-point corruption x {greedy, one-byte reads}; non-trivial = the input is a corrupted (non-identity) request; all inputs are distinct by construction"));
        part.set("exhaustive", json!(true));
        // model-checking keys for this part: each run is one full execution compared step by step
        part.add("states", part.get("evaluations"));
        part.add("transitions", part.get("evaluations"));
        part.add("traces_validated_against_impl", part.get("evaluations"));
        parts.push(part);
    }
    parts
}
