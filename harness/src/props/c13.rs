//! C13 — 100 Continue is queued exactly when asked for and a body is awaited.
use crate::connx::{piece, Cfg, Class};
use crate::explore::{bfs, record, Limits};
use crate::props::small_build;
use crate::util::{workers, Part};

pub fn alphabet(thorough: bool) -> Vec<crate::connx::Piece> {
    let mut p = vec![
        piece("rl_put11", Class::ReqLine, b"PUT /e HTTP/1.1\r\n"),
        piece("rl_patch10", Class::ReqLine, b"PATCH /e HTTP/1.0\r\n"),
        piece("h_expect", Class::Header, b"Expect: 100-continue\r\n"),
        piece("h_expect_caps_padded", Class::Header, b"EXPECT:  100-continue \r\n"),
        piece("h_expect_100-Continue", Class::Header, b"Expect: 100-Continue\r\n"),
        piece("h_expect_103", Class::Header, b"Expect: 103-checkpoint\r\n"),
        piece("h_cl0", Class::Header, b"Content-Length: 0\r\n"),
        piece("h_cl1", Class::Header, b"Content-Length: 1\r\n"),
        piece("h_cl40", Class::Header, b"Content-Length: 40\r\n"),
        piece("h_cl41", Class::Header, b"Content-Length: 41\r\n"),
        piece("blank", Class::Blank, b"\r\n"),
        piece("body_a", Class::Body, b"a"),
        piece("body_tricky40", Class::Body, &crate::props::alphabet::tricky_body(40)),
    ];
    if thorough {
        p.push(piece("rl_get11", Class::ReqLine, b"GET /g HTTP/1.1\r\n"));
        p.push(piece("h_cl3", Class::Header, b"Content-Length: 3\r\n"));
        p.push(piece("h_expect_lower_tab", Class::Header, b"expect:\t100-continue\r\n"));
        p.push(piece("h_xa", Class::Header, b"X-a: 1\r\n"));
        p.push(piece("body_abc", Class::Body, b"abc"));
        p.push(piece("stray_cr", Class::Stray, b"\r"));
    }
    p
}

pub fn run(thorough: bool) -> Vec<Part> {
    let mut parts = vec![];
    if small_build() {
        let mut part = Part::new("C13", "expect-alphabet-s", "model_checking");
        part.assume("S-build: BUFFER_SIZE = 32, payload limit 40; all sequences over an alphabet of request lines (both versions), Expect variants (name case, padding, unsupported values, duplicates by repetition), Content-Length in {absent,0,1,(3),40,41}, bodies x all read sizes; after every try_read the output drained from the connection must be exactly the 100-Continue responses the reference predicts for the header blocks completed by the bytes consumed so far");
        let cfg = Cfg::base("C13", "expect-alphabet", alphabet(thorough), 40);
        let limits = Limits { max_states: 6_000_000, max_secs: if thorough { 3000.0 } else { 120.0 }, ..Default::default() };
        let st = bfs(&cfg, &limits, workers());
        record(&mut part, "expect-alphabet", &st);
        for (v, _) in &st.violations {
            part.violations.push(v.clone());
        }
        parts.push(part);
    } else {
        parts.push(crate::props::srv::c13_server(thorough));
    }
    parts
}
