//! C13 — 100 Continue is queued exactly when asked for and a body is awaited.
use crate::connx::{piece, Cfg, Class};
use crate::explore::{bfs, record, Limits};
use crate::props::small_build;
use crate::util::{workers, Part};

pub fn alphabet(thorough: bool) -> Vec<crate::connx::Piece> {
    let mut p = vec![
        piece("rl_put11", Class::ReqLine, b"PUT /e HTTP/1.1\r\n"),
        piece("rl_patch10", Class::ReqLine, b"PATCH /e HTTP/1.0\r\n"),
        piece("h_expect", Class::Header, b"Expect: 100-continue\r\n"),
        piece("h_expect_caps_padded", Class::Header, b"EXPECT:  100-continue \r\n"),
        piece("h_expect_100-Continue", Class::Header, b"Expect: 100-Continue\r\n"),
        piece("h_expect_103", Class::Header, b"Expect: 103-checkpoint\r\n"),
        piece("h_expect_list", Class::Header, b"Expect: 100-continue,x\r\n"),
        piece("h_cl0", Class::Header, b"Content-Length: 0\r\n"),
        piece("h_cl1", Class::Header, b"Content-Length: 1\r\n"),
        piece("h_cl40", Class::Header, b"Content-Length: 40\r\n"),
        piece("h_cl41", Class::Header, b"Content-Length: 41\r\n"),
        piece("blank", Class::Blank, b"\r\n"),
        piece("body_a", Class::Body, b"a"),
        piece("body_tricky40", Class::Body, &crate::props::alphabet::tricky_body(40)),
    ];
    if thorough {
        // medium alphabet (reaches its fixpoint); `alphabet_full` adds the rest
        p.push(piece("h_cl3", Class::Header, b"Content-Length: 3\r\n"));
        p.push(piece("h_expect_lower_tab", Class::Header, b"expect:\t100-continue\r\n"));
        p.push(piece("body_abc", Class::Body, b"abc"));
    }
    p
}

pub fn alphabet_full() -> Vec<crate::connx::Piece> {
    let mut p = alphabet(true);
    p.push(piece("rl_get11", Class::ReqLine, b"GET /g HTTP/1.1\r\n"));
    p.push(piece("h_xa", Class::Header, b"X-a: 1\r\n"));
    p.push(piece("stray_cr", Class::Stray, b"\r"));
    p
}

pub fn run(thorough: bool) -> Vec<Part> {
    let mut parts = vec![];
    if small_build() {
        let mut part = Part::new("C13", "expect-alphabet-s", "model_checking");
        part.assume("S-build: BUFFER_SIZE = 32, payload limit 40; all sequences over an alphabet of request lines (both versions), Expect variants (name case, padding, unsupported values, duplicates by repetition), Content-Length in {absent,0,1,(3),40,41}, bodies x all read sizes; after every try_read the output drained from the connection must be exactly the 100-Continue responses the reference predicts for the header blocks completed by the bytes consumed so far");
        let mut cfg = Cfg::base("C13", "expect-alphabet", alphabet(thorough), 40);
        cfg.allow_defer = true;
        cfg.empty_reads = false;
        // a write may fail (the queued output is lost); later Expect requests still get their 100
        cfg.write_faults = true;
        let limits = Limits { max_states: 12_000_000, max_secs: if thorough { 1500.0 } else { 120.0 }, ..Default::default() };
        let st = bfs(&cfg, &limits, workers());
        record(&mut part, "expect-alphabet", &st);
        {
            // a response (interim or the application's answer) stays partly written while further
            // requests are read: what is due stays due
            for (name, st) in [
                ("answered request, then an Expect request, then a plain one", &b"GET / HTTP/1.0\r\n\r\nPUT /a HTTP/1.1\r\nExpect: 100-continue\r\nContent-Length: 3\r\n\r\nabcGET /t HTTP/1.1\r\n\r\n"[..]),
                ("two Expect requests back to back", &b"PUT /a HTTP/1.0\r\nExpect: 100-continue\r\nContent-Length: 2\r\n\r\nxyPUT /b HTTP/1.1\r\nContent-Length: 1\r\nExpect: 100-continue\r\n\r\nz"[..]),
            ] {
                let mut scfg = Cfg::base("C13", &format!("partly written output while further requests arrive: {}", name), vec![], 40);
                scfg.stream = Some(st.to_vec());
                scfg.empty_reads = false;
                scfg.answer_requests = true;
                scfg.write_shorts = true;
                let sts = bfs(&scfg, &Limits { max_states: 3_000_000, max_secs: if thorough { 900.0 } else { 40.0 }, ..Default::default() }, workers());
                record(&mut part, &scfg.label, &sts);
                for (v, _) in &sts.violations {
                    part.violations.push(v.clone());
                }
            }
        }
        if thorough {
            let mut full = Cfg::base("C13", "expect-alphabet-full", alphabet_full(), 40);
            full.allow_defer = true;
            full.empty_reads = false;
            let stf = bfs(&full, &Limits { max_states: 5_000_000, max_secs: 600.0, ..Default::default() }, workers());
            record(&mut part, "expect-alphabet-full (capped)", &stf);
            for (v, _) in &stf.violations {
                part.violations.push(v.clone());
            }
        }
        {
            let tl = crate::connx::stateless_sequences(&cfg, if thorough { 5 } else { 4 }, workers());
            crate::connx::record_stateless(&mut part, &cfg.label, &tl);
        }
        for (v, _) in &st.violations {
            part.violations.push(v.clone());
        }
        // the same alphabet continued past parse errors (over-limit declarations, stray CR) in
        // lock-step with a fresh connection: interim responses after an error must be those a
        // fresh connection would queue
        {
            let mut pcs = alphabet(thorough);
            // more ways to fail and more alignments of what a failed read leaves in the buffer
            pcs.push(piece("h_nocolon", Class::Header, b"nocolon\r\n"));
            pcs.push(piece("h_xa8", Class::Header, b"X-a: 1\r\n"));
            pcs.push(piece("h_xb9", Class::Header, b"X-bb: 2\r\n"));
            pcs.push(piece("rl_bad_version", Class::ReqLine, b"PUT /e HTTP/1.2\r\n"));
            let mut cfg2 = Cfg::base("C13", "expect-alphabet-after-errors", pcs, 40);
            cfg2.continue_after_error = true;
            cfg2.empty_reads = false;
            let limits = Limits { max_states: 4_000_000, max_secs: if thorough { 1500.0 } else { 60.0 }, ..Default::default() };
            let st2 = bfs(&cfg2, &limits, workers());
            record(&mut part, "expect-alphabet-after-errors", &st2);
            for (v, _) in &st2.violations {
                part.violations.push(v.clone());
            }
        }
        parts.push(part);
    } else {
        // R-build: several Expect requests in one buffer (not possible with the 32-byte buffer),
        // heavily padded header names; all segmentations, with and without the application
        // writing between reads
        let mut part = Part::new("C13", "expect-streams-r", "model_checking");
        part.assume("R-build (1024-byte buffer): streams with two pipelined Expect requests of the same and of different versions, Expect with zero / over-limit length, Expect names padded with up to 24 spaces or tabs; every segmentation into reads x the application writing after each read or only after a later one");
        let ex = |ver: &str, name: &str, n: usize, body: &str| format!("PUT /e HTTP/{}\r\n{}: 100-continue\r\nContent-Length: {}\r\n\r\n{}", ver, name, n, body);
        let streams: Vec<(String, String)> = vec![
            ("two expects same version".into(), format!("{}{}GET /t HTTP/1.1\r\n\r\n", ex("1.1", "Expect", 3, "abc"), ex("1.1", "Expect", 2, "xy"))),
            ("two expects mixed versions".into(), format!("{}{}", ex("1.0", "Expect", 1, "a"), ex("1.1", "expect", 1, "b"))),
            ("expect zero length then expect".into(), format!("{}{}", ex("1.1", "Expect", 0, ""), ex("1.1", "Expect", 4, "body"))),
            ("name padded with 12 spaces".into(), ex("1.1", "Expect            ", 2, "ok")),
            ("name padded left and right with tabs/spaces (24)".into(), ex("1.1", "\t    \t      Expect \t          ", 2, "ok")),
            ("expect next to Transfer-Encoding: chunked, before and after it (the body is still framed by Content-Length)".into(), format!("PUT /e HTTP/1.1\r\nTransfer-Encoding: chunked\r\nExpect: 100-continue\r\nContent-Length: 2\r\n\r\nokPUT /f HTTP/1.0\r\nExpect: 100-continue\r\nContent-Length: 1\r\ntransfer-encoding: chunked\r\nAccept: text/plain\r\n\r\nz")),
            ("three expects".into(), format!("{}{}{}", ex("1.1", "Expect", 1, "a"), ex("1.1", "Expect", 1, "b"), ex("1.1", "Expect", 1, "c"))),
        ];
        for (name, st) in streams {
            if !thorough && name.starts_with("three") {
                continue;
            }
            let mut cfg = Cfg::base("C13", &name, vec![], 51200);
            cfg.stream = Some(st.into_bytes());
            cfg.empty_reads = false;
            cfg.allow_defer = true;
            let stt = bfs(&cfg, &Limits { max_states: 3_000_000, max_secs: 600.0, ..Default::default() }, workers());
            record(&mut part, &name, &stt);
            for (v, _) in &stt.violations {
                part.violations.push(v.clone());
            }
        }
        // long-lived connection: Expect requests hundreds of requests apart; limits >= 2^32
        {
            let exq = |ver: &str, n: usize| format!("PUT /e HTTP/{}\r\nExpect: 100-continue\r\nContent-Length: {}\r\n\r\n{}", ver, n, "b".repeat(n));
            let mut cases: Vec<(String, Vec<u8>, usize)> = vec![];
            for gap in [254usize, 255, 256, 257, 511, 512] {
                let mut st = exq("1.1", 2).into_bytes();
                for i in 0..gap {
                    st.extend_from_slice(format!("GET /{} HTTP/1.1\r\n\r\n", i).as_bytes());
                }
                st.extend_from_slice(exq("1.0", 3).as_bytes());
                cases.push((format!("expect, {} plain requests, expect", gap), st, 51200));
            }
            for lim in [1usize << 32, (1usize << 32) + 16, usize::MAX] {
                cases.push((format!("expect with 4- and 17-byte bodies under limit {}", lim), format!("{}{}", exq("1.1", 4), exq("1.0", 17)).into_bytes(), lim));
            }
            let t = crate::par::par_enum(
                cases.len() as u64,
                workers().min(cases.len()),
                300,
                |i, t| {
                    let (name, st, lim) = &cases[i as usize];
                    let mut cfg = Cfg::base("C13", name, vec![], *lim);
                    cfg.stream = Some(st.clone());
                    cfg.empty_reads = false;
                    for segs in [vec![st.len()], vec![1024; st.len() / 1024 + 1], vec![13; st.len() / 13 + 1]] {
                        let (v, _, _, acts) = crate::connx::run_segments(&cfg, &segs, false);
                        t.evals += 1;
                        t.nontrivial += 1;
                        if let Some((sig, d)) = v {
                            t.violate(&sig, format!("[{}] {}", name, &d[..d.len().min(500)]), crate::connx::schedule_replay(&cfg, &acts[..acts.len().min(300)]));
                        }
                    }
                    t.sample(serde_json::json!({"long_lived_case": name}));
                },
                |i| format!("long-lived case {}", i),
            );
            part.add("stateless_runs", t.evals);
            part.add("traces_validated_against_impl", t.evals);
            part.add("transitions", t.evals);
            for v in &t.violations {
                part.violations.push(v.clone());
            }
            for e in &t.machinery_errors {
                part.machinery_errors.push(e.clone());
            }
        }
        parts.push(part);
        parts.push(crate::props::srv::c13_server(thorough));
    }
    parts
}
