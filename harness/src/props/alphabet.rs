//! Piece alphabets for the connx products.
use crate::connx::{piece, Class, Piece};

fn line_of_len(prefix: &str, suffix: &str, total_with_crlf: usize) -> Vec<u8> {
    // prefix + 'a'* + suffix + CRLF of exactly `total_with_crlf` bytes
    let fill = total_with_crlf - prefix.len() - suffix.len() - 2;
    let mut v = prefix.as_bytes().to_vec();
    v.extend(std::iter::repeat(b'a').take(fill));
    v.extend_from_slice(suffix.as_bytes());
    v.extend_from_slice(b"\r\n");
    v
}

/// Body of `n` bytes that contains CRLFCRLF and a complete request look-alike.
pub fn tricky_body(n: usize) -> Vec<u8> {
    let mut v = b"\r\n\r\nGET /x HTTP/1.1\r\n\r\n".to_vec();
    let mut i = 0u8;
    while v.len() < n {
        v.push(b'A' + (i % 26));
        i = i.wrapping_add(1);
    }
    v.truncate(n);
    v
}

/// The S-build alphabet (BUFFER_SIZE = 32, payload limit 40). `level` 0 = quick subset,
/// 1 = full.
pub fn small(level: u8) -> Vec<Piece> {
    let b = crate::connx::buffer_size();
    let mut p = vec![
        piece("rl_get", Class::ReqLine, b"GET / HTTP/1.1\r\n"),
        piece("rl_put10", Class::ReqLine, b"PUT /a HTTP/1.0\r\n"),
        piece("rl_bad_version", Class::ReqLine, b"GET / HTTP/1.2\r\n"),
        piece("rl_len_b", Class::ReqLine, &line_of_len("GET /", " HTTP/1.1", b)),
        piece("rl_len_b+1", Class::ReqLine, &line_of_len("GET /", " HTTP/1.1", b + 1)),
        piece("h_cl3", Class::Header, b"Content-Length: 3\r\n"),
        piece("h_cl40", Class::Header, b"Content-Length: 40\r\n"),
        piece("h_cl41", Class::Header, b"Content-Length: 41\r\n"),
        piece("h_xa", Class::Header, b"X-a: 1\r\n"),
        piece("h_nocolon", Class::Header, b"nocolon\r\n"),
        piece("h_len_b", Class::Header, &line_of_len("X-a: ", "", b)),
        piece("h_len_b+1", Class::Header, &line_of_len("X-a: ", "", b + 1)),
        piece("blank", Class::Blank, b"\r\n"),
        piece("body_abc", Class::Body, b"abc"),
        piece("body_tricky40", Class::Body, &tricky_body(40)),
        piece("stray_cr", Class::Stray, b"\r"),
    ];
    if level == 1 {
        // medium alphabet: the quick one plus one representative of each further kind
        let full = small(2);
        for name in ["rl_patch_utf8", "rl_bad_method_lc", "h_cl_bad", "h_expect", "h_xbb", "h_nonutf8", "stray_lf", "h_cl0"] {
            if let Some(x) = full.iter().find(|x| x.name == name) {
                p.push(x.clone());
            }
        }
        return p;
    }
    if level >= 2 {
        p.extend(vec![
            piece("h_xbb", Class::Header, b"X-bb: 2\r\n"),
            piece("h_expect", Class::Header, b"Expect: 100-continue\r\n"),
            piece("h_cl0", Class::Header, b"Content-Length: 0\r\n"),
            piece("rl_bad_double_sp", Class::ReqLine, b"GET  HTTP/1.1\r\n"),
            piece("rl_patch_utf8", Class::ReqLine, "PATCH /\u{e9} HTTP/1.1\r\n".as_bytes()),
            piece("rl_bad_method_lc", Class::ReqLine, b"get / HTTP/1.1\r\n"),
            piece("rl_bad_missing_field", Class::ReqLine, b"GET /\r\n"),
            piece("rl_bad_uri_utf8", Class::ReqLine, b"GET /\xff HTTP/1.1\r\n"),
            piece("rl_len_b-1", Class::ReqLine, &line_of_len("GET /", " HTTP/1.1", b - 1)),
            piece("rl_len_b+2", Class::ReqLine, &line_of_len("GET /", " HTTP/1.1", b + 2)),
            piece("rl_len_70", Class::ReqLine, &line_of_len("GET /", " HTTP/1.1", 70)),
            piece("h_cl_bad", Class::Header, b"Content-Length: x\r\n"),
            piece("h_cl3_lower", Class::Header, b"content-length: 3\r\n"),
            piece("h_expect_unsupported", Class::Header, b"Expect: 103-checkpoint\r\n"),
            piece("h_nonutf8", Class::Header, b"X: \xff\r\n"),
            piece("h_len_b-1", Class::Header, &line_of_len("X-a: ", "", b - 1)),
            piece("h_len_b+2", Class::Header, &line_of_len("X-a: ", "", b + 2)),
            piece("h_len_70", Class::Header, &line_of_len("X-a: ", "", 70)),
            piece("stray_lf", Class::Stray, b"\n"),
        ]);
    }
    p
}

/// Alphabet emphasising the grammar: every kind of bad request line and header line.
pub fn grammar(level: u8) -> Vec<Piece> {
    let b = crate::connx::buffer_size();
    let mut p = vec![
        piece("rl_get", Class::ReqLine, b"GET / HTTP/1.1\r\n"),
        piece("rl_put10", Class::ReqLine, b"PUT /a HTTP/1.0\r\n"),
        piece("rl_bad_version", Class::ReqLine, b"GET / HTTP/1.2\r\n"),
        piece("rl_bad_method_lc", Class::ReqLine, b"get / HTTP/1.1\r\n"),
        piece("rl_bad_double_sp", Class::ReqLine, b"GET  HTTP/1.1\r\n"),
        piece("rl_bad_missing_field", Class::ReqLine, b"GET /\r\n"),
        piece("rl_bad_uri_utf8", Class::ReqLine, b"GET /\xff HTTP/1.1\r\n"),
        piece("rl_bad_method_and_version", Class::ReqLine, b"POST / HTTP/2\r\n"),
        piece("h_cl3", Class::Header, b"Content-Length: 3\r\n"),
        piece("h_cl_bad", Class::Header, b"Content-Length: x\r\n"),
        piece("h_nocolon", Class::Header, b"nocolon\r\n"),
        piece("h_nonutf8", Class::Header, b"X: \xff\r\n"),
        piece("h_ae_bad", Class::Header, b"Accept-Encoding: *;q=0\r\n"),
        piece("h_ae_empty", Class::Header, b"Accept-Encoding:\r\n"),
        piece("h_xa", Class::Header, b"X-a: 1\r\n"),
        piece("blank", Class::Blank, b"\r\n"),
        piece("body_abc", Class::Body, b"abc"),
        piece("stray_cr", Class::Stray, b"\r"),
    ];
    if level == 1 {
        let full = grammar(2);
        for name in ["rl_patch_utf8", "h_cl41", "stray_lf", "h_expect_unsupported", "rl_len_b+1"] {
            if let Some(x) = full.iter().find(|x| x.name == name) {
                p.push(x.clone());
            }
        }
        return p;
    }
    if level >= 2 {
        p.extend(vec![
            piece("rl_patch_utf8", Class::ReqLine, "PATCH /\u{e9} HTTP/1.1\r\n".as_bytes()),
            piece("h_expect_unsupported", Class::Header, b"Expect: 103-checkpoint\r\n"),
            piece("stray_lf", Class::Stray, b"\n"),
            piece("h_cl3_lower", Class::Header, b"content-length: 3\r\n"),
            piece("rl_bad_uri_and_version", Class::ReqLine, b"GET  HTTP/9\r\n"),
            piece("rl_len_b", Class::ReqLine, &line_of_len("GET /", " HTTP/1.1", b)),
            piece("rl_len_b+1", Class::ReqLine, &line_of_len("GET /", " HTTP/1.1", b + 1)),
            piece("h_cl41", Class::Header, b"Content-Length: 41\r\n"),
            piece("h_cl40", Class::Header, b"Content-Length: 40\r\n"),
            piece("h_accept_json", Class::Header, b"Accept: application/json\r\n"),
            piece("h_te_chunked", Class::Header, b"Transfer-Encoding: chunked\r\n"),
            piece("h_len_b+1", Class::Header, &line_of_len("X-a: ", "", b + 1)),
            piece("body_tricky40", Class::Body, &tricky_body(40)),
        ]);
    }
    p
}
