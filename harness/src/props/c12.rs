//! C12 — descriptors passed with a request are delivered once, in order, never leaked.
use crate::connx::{self, piece, Act, Cfg, Class};
use crate::explore::{bfs, record, Limits};
use crate::par::par_enum;
use crate::props::small_build;
use crate::util::{self, workers, Part};
use micro_http::HttpConnection;
use serde_json::json;
use std::io::{Read, Write};
use std::os::unix::io::RawFd;
use std::os::unix::net::UnixStream;
use vmm_sys_util::sock_ctrl_msg::ScmSocket;

fn pieces(thorough: bool) -> Vec<connx::Piece> {
    let mut p = vec![
        piece("rl_get", Class::ReqLine, b"GET / HTTP/1.1\r\n"),
        piece("h_cl3", Class::Header, b"Content-Length: 3\r\n"),
        piece("blank", Class::Blank, b"\r\n"),
        piece("body_abc", Class::Body, b"abc"),
    ];
    if thorough {
        p.push(piece("rl_put10", Class::ReqLine, b"PUT /a HTTP/1.0\r\n"));
        p.push(piece("h_xa", Class::Header, b"X-a: 1\r\n"));
    }
    p
}

/// End-to-end scenario over a real socketpair with SCM_RIGHTS: the stream is sent in
/// `segments`, segment i accompanied by `fds_per_seg[i]` descriptors (read ends of tagged
/// pipes); the connection reads after every send.
fn socketpair_case(stream: &[u8], cuts: &[usize], fds_at: &[(usize, usize)]) -> Result<(usize, usize), String> {
    socketpair_case_mode(stream, cuts, fds_at, 0)
}

fn open_devnull() -> RawFd {
    unsafe { libc::open(b"/dev/null\0".as_ptr() as *const libc::c_char, libc::O_RDONLY) }
}

/// `mode` decides which descriptor numbers the kernel hands out for received descriptors:
/// 0 lowest free above everything the process holds (ascending in arrival order);
/// 1 descriptor number 0 is free whenever the connection reads (the first descriptor received
///   becomes number 0, as in a daemon that closed its standard input);
/// 2 a lower number becomes free before every read (descending in arrival order across reads).
fn socketpair_case_mode(stream: &[u8], cuts: &[usize], fds_at: &[(usize, usize)], mode: u8) -> Result<(usize, usize), String> {
    // make sure number 0 is occupied while the scenario's own descriptors are created
    if unsafe { libc::fcntl(0, libc::F_GETFD) } < 0 {
        let fd = open_devnull();
        if fd != 0 {
            return Err(format!("harness: could not occupy descriptor 0 (got {})", fd));
        }
    }
    let mut placeholders: Vec<RawFd> = vec![];
    if mode == 2 {
        for _ in 0..6 {
            placeholders.push(open_devnull());
        }
    }
    let r = socketpair_case_inner(stream, cuts, fds_at, mode, &mut placeholders);
    for p in placeholders {
        unsafe {
            libc::close(p);
        }
    }
    if unsafe { libc::fcntl(0, libc::F_GETFD) } < 0 {
        open_devnull();
    }
    r
}

fn socketpair_case_inner(stream: &[u8], cuts: &[usize], fds_at: &[(usize, usize)], mode: u8, placeholders: &mut Vec<RawFd>) -> Result<(usize, usize), String> {
    let (client, server) = UnixStream::pair().map_err(|e| e.to_string())?;
    server.set_nonblocking(true).unwrap();
    let server_fd = {
        use std::os::unix::io::AsRawFd;
        server.as_raw_fd()
    };
    let mut conn = HttpConnection::new(server);
    let mut pipes: Vec<(RawFd, RawFd)> = vec![];
    let mut next_tag = 0u8;
    let mut expected_pending: Vec<u8> = vec![]; // tags in arrival order
    let mut delivered_reqs = 0usize;
    let mut delivered_fds = 0usize;
    let mut bounds: Vec<usize> = cuts.to_vec();
    bounds.push(stream.len());
    let mut prev = 0usize;
    let mut kept: Vec<std::fs::File> = vec![];
    let mut conn_reads = 0usize;
    // descriptor 0 is a placeholder of the harness (true) or belongs to a received file (false)
    let mut ph0 = true;
    for (si, &end) in bounds.iter().enumerate() {
        let seg = &stream[prev..end];
        prev = end;
        let nf = fds_at.iter().find(|(s, _)| *s == si).map(|(_, n)| *n).unwrap_or(0);
        let mut fds = vec![];
        for _ in 0..nf {
            let mut p = [0i32; 2];
            assert_eq!(unsafe { libc::pipe(p.as_mut_ptr()) }, 0);
            let tag = [next_tag];
            assert_eq!(unsafe { libc::write(p[1], tag.as_ptr() as *const libc::c_void, 1) }, 1);
            expected_pending.push(next_tag);
            next_tag += 1;
            pipes.push((p[0], p[1]));
            fds.push(p[0]);
        }
        if seg.is_empty() && fds.is_empty() {
            continue;
        }
        if fds.is_empty() {
            (&client).write_all(seg).map_err(|e| e.to_string())?;
        } else {
            let n = client.send_with_fds(&[seg], &fds).map_err(|e| format!("send_with_fds: {}", e))?;
            if n != seg.len() {
                return Err("short send".into());
            }
            // the sender's copies of the read ends are closed: the receiver owns the only ones
            for f in &fds {
                unsafe {
                    libc::close(*f);
                }
            }
        }
        // descriptor numbers available to the receiving side for this read
        if mode == 1 && ph0 {
            unsafe {
                libc::close(0);
            }
            ph0 = false;
        } else if mode == 2 {
            if let Some(p) = placeholders.pop() {
                unsafe {
                    libc::close(p);
                }
            }
        }
        // read until would-block
        loop {
            if mode == 1 && conn_reads > 0 && !ph0 && unsafe { libc::fcntl(0, libc::F_GETFD) } < 0 {
                // keep number 0 free only for the first read of this segment
                open_devnull();
                ph0 = true;
            }
            conn_reads += 1;
            // one more call after the socket is empty (the would-block answer), then stop -
            // whatever that call returns (an implementation may report would-block as Ok)
            let mut avail: libc::c_int = 0;
            unsafe {
                libc::ioctl(server_fd, libc::FIONREAD, &mut avail);
            }
            let last = avail == 0;
            match util::catch(|| conn.try_read()) {
                Err(p) => return Err(format!("try_read panicked: {}", p)),
                Ok(Ok(())) if last => break,
                Ok(Ok(())) => {}
                Ok(Err(micro_http::ConnectionError::StreamReadError(_))) => break,
                Ok(Err(e)) => return Err(format!("unexpected try_read error {:?}", e)),
            }
            while let Some(mut r) = conn.pop_parsed_request() {
                let mut tags = vec![];
                for f in r.files.iter_mut() {
                    let mut b = [0u8; 1];
                    f.read_exact(&mut b).map_err(|e| format!("delivered descriptor unreadable: {}", e))?;
                    tags.push(b[0]);
                }
                let want: Vec<u8> = std::mem::take(&mut expected_pending);
                if delivered_reqs == 0 || !want.is_empty() || !tags.is_empty() {
                    if tags != want {
                        return Err(format!("request #{} carries descriptors tagged {:?}, expected {:?} (arrival order, first request completed)", delivered_reqs, tags, want));
                    }
                }
                delivered_fds += tags.len();
                delivered_reqs += 1;
                kept.append(&mut r.files);
            }
        }
        if mode == 1 && !ph0 && unsafe { libc::fcntl(0, libc::F_GETFD) } < 0 {
            open_devnull();
            ph0 = true;
        }
        conn_reads = 0;
    }
    drop(kept);
    drop(conn);
    drop(client);
    // every read end must be closed now: writing to the write end gives EPIPE
    for (_, w) in &pipes {
        unsafe {
            libc::fcntl(*w, libc::F_SETFL, libc::O_NONBLOCK);
        }
        let x = [0u8; 1];
        let r = unsafe { libc::write(*w, x.as_ptr() as *const libc::c_void, 1) };
        let errno = std::io::Error::last_os_error().raw_os_error().unwrap_or(0);
        unsafe {
            libc::close(*w);
        }
        if !(r < 0 && errno == libc::EPIPE) {
            return Err("a passed descriptor is still open after request and connection were dropped (leak)".into());
        }
    }
    Ok((delivered_reqs, delivered_fds))
}

fn fd_count() -> usize {
    std::fs::read_dir("/proc/self/fd").map(|d| d.count()).unwrap_or(0)
}

pub fn run(thorough: bool) -> Vec<Part> {
    if small_build() {
        let mut part = Part::new("C12", "fd-alphabet-s", "model_checking");
        part.assume("S-build, error-free piece alphabet; every read (including the read that hits EOF) additionally carries 0, 1 or 2 descriptors (read ends of fresh pipes), at most 4 pending; reads after which the application does not pop yet (it pops after a later read) are explored too; reference: descriptors are appended to a pending list at every read and handed, in arrival order, to the first request completed by that or a later read; at the end of every explored path all requests and the connection are dropped and every descriptor must be closed exactly once (fcntl on the number, harness write ends intact)");
        let mut cfg = Cfg::base("C12", "fd-alphabet", pieces(true), 40);
        cfg.offer_when_queued_le = if thorough { 24 } else { 20 };
        cfg.max_fds_per_read = 2;
        cfg.max_pending_fds = 4;
        cfg.eof = true;
        cfg.empty_reads = true;
        cfg.judge_errors = false;
        let limits = Limits { max_states: 6_000_000, max_secs: if thorough { 3000.0 } else { 120.0 }, ..Default::default() };
        let st = bfs(&cfg, &limits, workers());
        record(&mut part, "fd-alphabet", &st);
        crate::explore::require_facts(&mut part, "fd-alphabet", &st, &["descriptors_on_read_completing_no_request", "descriptors_on_read_completing_one_request", "descriptors_on_read_completing_several_requests", "descriptors_on_eof_read"]);
        for (v, _) in &st.violations {
            part.violations.push(v.clone());
        }
        {
            // the same alphabet with descriptor numbers that are not monotonic in arrival order
            let mut z = cfg.clone();
            z.label = "fd-alphabet (zigzag descriptor numbers)".into();
            z.zigzag_fds = true;
            z.offer_when_queued_le = if thorough { 20 } else { 6 };
            let stz = bfs(&z, &Limits { max_states: 3_000_000, max_secs: if thorough { 1500.0 } else { 60.0 }, ..Default::default() }, workers());
            record(&mut part, &z.label, &stz);
            for (v, _) in &stz.violations {
                part.violations.push(v.clone());
            }
        }
        // second graph: the application does not pop after every read (smaller alphabet)
        let mut dcfg = Cfg::base("C12", "fd-alphabet-deferred-pops", pieces(false), 40);
        dcfg.max_fds_per_read = if thorough { 2 } else { 1 };
        dcfg.max_pending_fds = 3;
        dcfg.eof = true;
        dcfg.empty_reads = false;
        dcfg.judge_errors = false;
        dcfg.allow_defer = true;
        dcfg.offer_when_queued_le = if thorough { 20 } else { 4 };
        let st2 = bfs(&dcfg, &Limits { max_states: 4_000_000, max_secs: if thorough { 1500.0 } else { 60.0 }, ..Default::default() }, workers());
        record(&mut part, "fd-alphabet-deferred-pops", &st2);
        for (v, _) in &st2.violations {
            part.violations.push(v.clone());
        }
        // third graph: the write path is active on the same connection (the application answers
        // what it pops; a write may be short and the next one may fail): pending descriptors are
        // untouched by what happens to the output
        {
            let mut wcfg = Cfg::base("C12", "fd-alphabet with answers, short and failing writes", pieces(false), 40);
            wcfg.max_fds_per_read = 1;
            wcfg.max_pending_fds = 2;
            wcfg.eof = false;
            wcfg.empty_reads = false;
            wcfg.judge_errors = false;
            wcfg.answer_requests = true;
            wcfg.write_faults = true;
            wcfg.write_shorts = true;
            wcfg.write_flags_with_fds = true;
            wcfg.offer_when_queued_le = if thorough { 12 } else { 4 };
            let st3 = bfs(&wcfg, &Limits { max_states: 3_000_000, max_secs: if thorough { 1500.0 } else { 60.0 }, ..Default::default() }, workers());
            record(&mut part, &wcfg.label, &st3);
            for (v, _) in &st3.violations {
                part.violations.push(v.clone());
            }
        }
        // one read carrying the maximum of 253 descriptors
        let mut big = Cfg::base("C12", "253 descriptors on one read", vec![], 40);
        big.stream = Some(b"GET / HTTP/1.1\r\n\r\nGET /b HTTP/1.1\r\n\r\n".to_vec());
        big.max_fds_per_read = 253;
        big.max_pending_fds = 253;
        big.max_pending_fds = 1000;
        for acts in [
            vec![Act::Read(10, 253), Act::Read(8, 0), Act::Read(20, 0)],
            vec![Act::Read(18, 253), Act::Read(20, 0)],
            vec![Act::Read(5, 0), Act::Eof(253)],
            // more than 253 descriptors for one request, spread over several reads
            vec![Act::Read(10, 253), Act::Read(8, 1), Act::Read(20, 0)],
            vec![Act::Read(5, 120), Act::Read(5, 120), Act::Read(8, 60), Act::Read(20, 0)],
            vec![Act::Read(10, 253), Act::Read(4, 253), Act::Read(4, 253), Act::Read(20, 5)],
        ] {
            let (v, _, _) = connx::run_schedule(&big, &acts);
            part.add("transitions", acts.len() as u64);
            part.add("traces_validated_against_impl", acts.len() as u64);
            if let Some((sig, detail)) = v {
                part.violations.push(util::Violation { signature: sig, detail: format!("[253 descriptors] {}", detail), replay: connx::schedule_replay(&big, &acts) });
            }
        }
        return vec![part];
    }
    // R-build: end to end over a real socketpair
    let mut part = Part::new("C12", "socketpair-r", "model_checking");
    part.assume("R-build: the same law end to end over a real AF_UNIX socketpair with SCM_RIGHTS through vmm-sys-util: streams of 1..3 pipelined requests x every single and double cut (bounded) x every placement of 1..2 descriptor batches (1, 2 or 3 descriptors) on segments; identity is checked through a tag readable from each descriptor; leak freedom through EPIPE on the kept write ends and the process descriptor count");
    let streams: Vec<Vec<u8>> = vec![
        b"GET /a HTTP/1.1\r\n\r\n".to_vec(),
        b"PUT /a HTTP/1.1\r\nContent-Length: 3\r\n\r\nabcGET /b HTTP/1.1\r\n\r\n".to_vec(),
        b"GET /a HTTP/1.1\r\n\r\nGET /b HTTP/1.1\r\nX-a: 1\r\n\r\nPATCH /c HTTP/1.0\r\nContent-Length: 2\r\n\r\nxy".to_vec(),
    ];
    let mut cases: Vec<(usize, Vec<usize>, Vec<(usize, usize)>)> = vec![];
    for (si, s) in streams.iter().enumerate() {
        let step = if thorough { 1 } else { 3 };
        let mut cutsets: Vec<Vec<usize>> = vec![vec![]];
        for c in (1..s.len()).step_by(step) {
            cutsets.push(vec![c]);
        }
        let step2 = if thorough { 5 } else { 11 };
        for c1 in (1..s.len()).step_by(step2) {
            for c2 in (c1 + 1..s.len()).step_by(step2) {
                cutsets.push(vec![c1, c2]);
            }
        }
        for cs in cutsets {
            let nseg = cs.len() + 1;
            for a in 0..nseg {
                for na in 1..=2usize {
                    cases.push((si, cs.clone(), vec![(a, na)]));
                    for b in a + 1..nseg {
                        cases.push((si, cs.clone(), vec![(a, na), (b, 3 - na)]));
                    }
                }
            }
            cases.push((si, cs.clone(), vec![]));
        }
    }
    let base_fds = fd_count();
    let t = par_enum(
        3 * cases.len() as u64,
        workers(),
        60,
        |i, t| {
            let mode = (i % 3) as u8;
            let (si, cuts, fds_at) = &cases[(i / 3) as usize];
            if mode != 0 && fds_at.is_empty() {
                return;
            }
            // descriptor 0 must be in the same condition before and after
            if unsafe { libc::fcntl(0, libc::F_GETFD) } < 0 {
                open_devnull();
            }
            let before = fd_count();
            let r = socketpair_case_mode(&streams[*si], cuts, fds_at, mode);
            let after = fd_count();
            t.evals += 1;
            if !fds_at.is_empty() {
                t.nontrivial += 1;
            }
            match r {
                Ok((nreq, nfd)) => {
                    t.count(&format!("delivered_{}_requests_{}_descriptors", nreq, nfd));
                    t.outcome((nreq * 16 + nfd) as u64);
                    if after != before {
                        t.violate("fd-leak", format!("process holds {} descriptors after the scenario, {} before (stream {}, cuts {:?}, descriptors at {:?})", after, before, si, cuts, fds_at), json!({"engine": "socketpair", "stream": util::hex(&streams[*si]), "cuts": cuts, "fds_at": fds_at, "mode": mode}));
                    }
                }
                Err(e) => t.violate(
                    if e.contains("leak") { "fd-leak" } else if e.contains("carries descriptors") { "fd-attribution" } else { "socketpair-failure" },
                    format!("{} (stream {}, cuts {:?}, descriptor batches (segment, count) {:?}, descriptor-number mode {})", e, si, cuts, fds_at, mode),
                    json!({"engine": "socketpair", "stream": util::hex(&streams[*si]), "cuts": cuts, "fds_at": fds_at, "mode": mode}),
                ),
            }
            if i % 997 == 5 {
                t.sample(json!({"stream": util::show(&streams[*si]), "cuts": cuts, "descriptor_batches_segment_count": fds_at}));
            }
        },
        |i| format!("socketpair case {} (descriptor-number mode {})", i / 3, i % 3),
    );
    let _ = base_fds;
    t.record(&mut part, "socketpair-scm-rights");
    part.add("states", t.evals);
    part.add("transitions", t.evals);
    part.add("traces_validated_against_impl", t.evals);
    part.set("rule", json!("each case = (stream, cut set, descriptor placement), all distinct; non-trivial = at least one descriptor batch is sent"));
    part.set("exhaustive", json!(true));
    vec![part]
}

pub fn replay_socketpair(v: &serde_json::Value) -> (bool, serde_json::Value) {
    let stream = util::unhex(v["stream"].as_str().unwrap());
    let cuts: Vec<usize> = v["cuts"].as_array().unwrap().iter().map(|x| x.as_u64().unwrap() as usize).collect();
    let fds_at: Vec<(usize, usize)> = v["fds_at"].as_array().unwrap().iter().map(|x| (x[0].as_u64().unwrap() as usize, x[1].as_u64().unwrap() as usize)).collect();
    let mode = v["mode"].as_u64().unwrap_or(0) as u8;
    if unsafe { libc::fcntl(0, libc::F_GETFD) } < 0 {
        open_devnull();
    }
    let before = fd_count();
    let r = socketpair_case_mode(&stream, &cuts, &fds_at, mode);
    let after = fd_count();
    let bad = r.is_err() || before != after;
    (bad, json!({"result": format!("{:?}", r), "fds_before": before, "fds_after": after}))
}

