//! Request grammar and single-point corruptions (shared by C02 and C14).

#[derive(Clone, Debug)]
pub struct Base {
    pub name: String,
    pub bytes: Vec<u8>,
}

pub fn bases(thorough: bool) -> Vec<Base> {
    let methods: &[&str] = &["GET", "PUT", "PATCH"];
    let uris: &[&str] = if thorough { &["/", "/a/b?c=d", "http://localhost/home", "/\u{e9}\u{4e16}"] } else { &["/", "http://h/p", "/\u{e9}"] };
    let versions: &[&str] = &["HTTP/1.0", "HTTP/1.1"];
    // (headers, body)
    let mut variants: Vec<(Vec<(&str, String)>, Vec<u8>)> = vec![
        (vec![], vec![]),
        (vec![("X-a", "1".into())], vec![]),
        (vec![("Content-Length", "3".into())], b"abc".to_vec()),
        (vec![("Expect", "100-continue".into()), ("Content-Length", "5".into())], b"he\r\nl".to_vec()),
        (vec![("Accept", "application/json".into()), ("Transfer-Encoding", "chunked".into())], vec![]),
        (vec![("Accept-Encoding", "gzip, identity".into()), ("Content-Type", "text/plain".into())], vec![]),
    ];
    // repeated Content-Length: the last acceptable occurrence wins, the limit applies to it
    variants.push((vec![("Content-Length", "60000".into()), ("Content-Length", "5".into())], b"hello".to_vec()));
    // repeated recognised headers: what a later line may and may not change
    variants.push((vec![("Transfer-Encoding", "chunked".into()), ("Transfer-Encoding", "identity".into())], vec![]));
    variants.push((vec![("Transfer-Encoding", "identity".into()), ("Accept", "text/plain".into()), ("Transfer-Encoding", "chunked".into()), ("Accept", "application/json".into())], vec![]));
    // valid non-ASCII UTF-8 in header names and values
    variants.push((vec![("X-Owner", "Zo\u{eb} M\u{fc}ller".into()), ("X-\u{3b1}", "1".into()), ("Accept", "text/\u{2603}".into())], vec![]));
    if thorough {
        variants.push((vec![("Content-Length", "4294967295".into()), ("X-a", "1".into()), ("Content-Length", "0".into())], vec![]));
        variants.push((vec![("content-length", " 12 ".into()), ("X-b", "v:w".into())], b"\r\n\r\nGET / HT".to_vec()));
        variants.push((vec![("Server", "x".into()), ("Accept-Encoding", "*;q=0, identity".into())], vec![]));
    }
    let mut out = vec![];
    for (mi, m) in methods.iter().enumerate() {
        for (ui, u) in uris.iter().enumerate() {
            for (vi, v) in versions.iter().enumerate() {
                for (hi, (hs, body)) in variants.iter().enumerate() {
                    // keep the product moderate: all variants for the first URI/version, a
                    // rotating one for the others
                    if !thorough && !(ui == 0 && vi == 1) && (mi + ui + vi) % variants.len() != hi {
                        continue;
                    }
                    let mut b = format!("{} {} {}\r\n", m, u, v).into_bytes();
                    for (k, val) in hs {
                        b.extend_from_slice(format!("{}: {}\r\n", k, val).as_bytes());
                    }
                    b.extend_from_slice(b"\r\n");
                    b.extend_from_slice(body);
                    out.push(Base { name: format!("{}_{}_{}_h{}", m, ui, vi, hi), bytes: b });
                }
            }
        }
    }
    out
}

pub const REPL: [u8; 7] = [b' ', b'\r', b'\n', b':', b'a', 0x00, 0xff];

/// Number of single-point corruptions of a string of length n (index 0 = unchanged).
pub fn corruption_count(n: usize) -> usize {
    1 + n * (1 + REPL.len() + REPL.len() + 1) + REPL.len()
}

/// The k-th corruption: 0 = identity; then per position: delete, replace×7, insert×7, case flip;
/// finally append×7.
pub fn corrupt(base: &[u8], k: usize) -> Option<(String, Vec<u8>)> {
    if k == 0 {
        return Some(("identity".into(), base.to_vec()));
    }
    let per = 1 + REPL.len() * 2 + 1;
    let k = k - 1;
    let pos = k / per;
    let op = k % per;
    if pos >= base.len() {
        let j = k - base.len() * per;
        if j < REPL.len() {
            let mut v = base.to_vec();
            v.push(REPL[j]);
            return Some((format!("append {:#04x}", REPL[j]), v));
        }
        return None;
    }
    let mut v = base.to_vec();
    if op == 0 {
        v.remove(pos);
        Some((format!("delete@{}", pos), v))
    } else if op <= REPL.len() {
        let r = REPL[op - 1];
        if v[pos] == r {
            return None;
        }
        v[pos] = r;
        Some((format!("replace@{} by {:#04x}", pos, r), v))
    } else if op <= 2 * REPL.len() {
        let r = REPL[op - 1 - REPL.len()];
        v.insert(pos, r);
        Some((format!("insert {:#04x} before {}", r, pos), v))
    } else {
        let c = v[pos];
        let f = if c.is_ascii_uppercase() {
            c.to_ascii_lowercase()
        } else if c.is_ascii_lowercase() {
            c.to_ascii_uppercase()
        } else {
            return None;
        };
        v[pos] = f;
        Some((format!("caseflip@{}", pos), v))
    }
}

/// Content-Length edge values (value text, body bytes supplied).
pub fn content_length_edges() -> Vec<(&'static str, usize)> {
    vec![("", 0), ("0", 0), ("-0", 0), ("-00", 0), ("007", 7), ("4294967295", 0), ("4294967296", 0), ("-1", 0), ("1x", 1), (" 5 ", 5), ("00", 0), ("3", 3), ("51200", 51200), ("51201", 0)]
}
