//! C05 — serialized responses are well-formed and self-delimiting (Content-Length = body).
use crate::explore::{bfs, record, Limits, Outcome, System};
use crate::props::small_build;
use crate::spec::response::{read_all, read_one, ReadResult};
use crate::util::{self, workers, Part, Violation};
use micro_http::{Body, MediaType, Method, Response, StatusCode, Version};
use serde_json::{json, Value};
use std::io::Write;

const STATUSES: [(StatusCode, u16); 11] = [
    (StatusCode::Continue, 100),
    (StatusCode::OK, 200),
    (StatusCode::NoContent, 204),
    (StatusCode::BadRequest, 400),
    (StatusCode::Unauthorized, 401),
    (StatusCode::NotFound, 404),
    (StatusCode::MethodNotAllowed, 405),
    (StatusCode::PayloadTooLarge, 413),
    (StatusCode::InternalServerError, 500),
    (StatusCode::NotImplemented, 501),
    (StatusCode::ServiceUnavailable, 503),
];
const METHODS: [Method; 3] = [Method::Get, Method::Put, Method::Patch];

#[derive(Clone, Copy, Debug, PartialEq, Eq)]
pub enum Call {
    New(u8, u8),
    SetBody(u8),
    ContentType(u8),
    Deprecation,
    Encoding,
    Server(u8),
    SetAllow(u8),
    AllowMethod(u8),
}

fn enc(c: Call) -> u64 {
    match c {
        Call::New(v, s) => 1 << 32 | (v as u64) << 8 | s as u64,
        Call::SetBody(b) => 2 << 32 | b as u64,
        Call::ContentType(t) => 3 << 32 | t as u64,
        Call::Deprecation => 4 << 32,
        Call::Encoding => 5 << 32,
        Call::Server(s) => 6 << 32 | s as u64,
        Call::SetAllow(a) => 7 << 32 | a as u64,
        Call::AllowMethod(m) => 8 << 32 | m as u64,
    }
}
fn dec(x: u64) -> Call {
    match x >> 32 {
        1 => Call::New((x >> 8) as u8, x as u8),
        2 => Call::SetBody(x as u8),
        3 => Call::ContentType(x as u8),
        4 => Call::Deprecation,
        5 => Call::Encoding,
        6 => Call::Server(x as u8),
        7 => Call::SetAllow(x as u8),
        8 => Call::AllowMethod(x as u8),
        _ => panic!("bad call"),
    }
}

pub struct Sys {
    pub bodies: Vec<Vec<u8>>,
    pub max_calls: usize,
}

pub fn bodies(big: usize) -> Vec<Vec<u8>> {
    vec![
        vec![],
        b"x".to_vec(),
        b"a\r\n\r\nb".to_vec(),
        b"HTTP/1.1 200 \r\nServer: fake\r\nContent-Length: 3\r\n\r\nabc".to_vec(),
        vec![0x00, 0xff, 0x0d, 0x0a, 0x80],
        (0..big).map(|i| (i * 7 % 251) as u8).collect(),
        // same lengths as two of the above, different bytes
        b"y".to_vec(),
        b"12345".to_vec(),
    ]
}
const SERVERS: [&str; 3] = ["srv", "My Server/1.0", "a-very-long-server-identification-token/1.0.0-rc1+build.20260101.abcdef0123456789abcdef0123456789abcdef01 (x86_64-unknown-linux-gnu; firecracker-compatible; verification build with a name longer than any fixed-size staging buffer would reasonably expect to hold in one piece)"];
fn allow_lists() -> Vec<Vec<Method>> {
    let mut long = vec![];
    for i in 0..40 {
        long.push(METHODS[i % 3]);
    }
    vec![vec![], vec![Method::Put], vec![Method::Get, Method::Patch], long]
}

/// Reference model of the builder.
#[derive(Default, Clone, Debug)]
struct Model {
    version: &'static str,
    code: u16,
    body: Option<Vec<u8>>,
    has_len: bool,
    content_type: Option<&'static str>,
    deprecation: bool,
    encoding: bool,
    server: Option<String>,
    allow: Vec<&'static str>,
}

fn mname(m: Method) -> &'static str {
    match m {
        Method::Get => "GET",
        Method::Put => "PUT",
        Method::Patch => "PATCH",
    }
}

impl Sys {
    fn build(&self, path: &[Call]) -> (Option<Response>, Model) {
        let mut r: Option<Response> = None;
        let mut m = Model::default();
        for c in path {
            match *c {
                Call::New(v, s) => {
                    let ver = if v == 0 { Version::Http10 } else { Version::Http11 };
                    r = Some(Response::new(ver, STATUSES[s as usize].0));
                    m = Model::default();
                    m.version = if v == 0 { "HTTP/1.0" } else { "HTTP/1.1" };
                    m.code = STATUSES[s as usize].1;
                    m.has_len = !(m.code == 100 || m.code == 204);
                }
                Call::SetBody(b) => {
                    r.as_mut().unwrap().set_body(Body::new(self.bodies[b as usize].clone()));
                    m.body = Some(self.bodies[b as usize].clone());
                    m.has_len = true;
                }
                Call::ContentType(t) => {
                    let (mt, s) = if t == 0 { (MediaType::PlainText, "text/plain") } else { (MediaType::ApplicationJson, "application/json") };
                    r.as_mut().unwrap().set_content_type(mt);
                    m.content_type = Some(s);
                }
                Call::Deprecation => {
                    r.as_mut().unwrap().set_deprecation();
                    m.deprecation = true;
                }
                Call::Encoding => {
                    r.as_mut().unwrap().set_encoding();
                    m.encoding = true;
                }
                Call::Server(s) => {
                    r.as_mut().unwrap().set_server(SERVERS[s as usize]);
                    m.server = Some(SERVERS[s as usize].to_string());
                }
                Call::SetAllow(a) => {
                    let l = allow_lists()[a as usize].clone();
                    m.allow = l.iter().map(|x| mname(*x)).collect();
                    r.as_mut().unwrap().set_allow(l);
                }
                Call::AllowMethod(x) => {
                    r.as_mut().unwrap().allow_method(METHODS[x as usize]);
                    m.allow.push(mname(METHODS[x as usize]));
                }
            }
        }
        (r, m)
    }

    fn check(&self, r: &Response, m: &Model, key: u128) -> Result<(), (String, String)> {
        let mut whole = vec![];
        r.write_all(&mut whole).map_err(|e| ("write-failed".to_string(), format!("write_all into a Vec failed: {}", e)))?;
        // same bytes however the sink splits the writes
        // (0 = this write call is interrupted: Err(ErrorKind::Interrupted), nothing accepted)
        let mut patterns: Vec<Vec<usize>> = vec![vec![1], vec![2], vec![3], vec![7], vec![64], vec![1, 0], vec![0, 1], vec![2, 0, 0], vec![64, 0], vec![0, 0, 7], vec![3, 0, 1000]];
        let mut k = key;
        for _ in 0..6 {
            let mut p = vec![];
            for _ in 0..6 {
                p.push([1usize, 2, 5][(k % 3) as usize]);
                k /= 3;
            }
            patterns.push(p);
        }
        for p in patterns {
            let mut sink = ChunkSink { out: vec![], pattern: p.clone(), i: 0 };
            r.write_all(&mut sink).map_err(|e| ("write-failed".to_string(), format!("write_all into a chunking sink failed: {}", e)))?;
            if sink.out != whole {
                return Err(("sink-dependent-bytes".into(), format!("sink accepting {:?} bytes per write received different bytes than a sink accepting everything", p)));
            }
        }
        // independent reader
        let p = match read_one(&whole) {
            ReadResult::Complete(p) => p,
            ReadResult::Incomplete => return Err(("not-self-delimiting".into(), format!("the reader needs more bytes than were written: {:?}", util::show(&whole)))),
            ReadResult::Malformed(e) => return Err(("malformed".into(), format!("{} in {:?}", e, util::show(&whole)))),
        };
        if p.len != whole.len() {
            return Err(("not-self-delimiting".into(), format!("framing covers {} of {} written bytes (Content-Length does not match the body): {:?}", p.len, whole.len(), util::show(&whole))));
        }
        if p.version != m.version || p.code != m.code || p.after_code != " " {
            return Err(("status-line".into(), format!("status line gives {} {}{:?}, expected `{} {} ` then CRLF", p.version, p.code, p.after_code, m.version, m.code)));
        }
        // expected header lines in order
        let mut want: Vec<(String, Option<String>)> = vec![("Server".into(), m.server.clone()), ("Connection".into(), Some("keep-alive".into()))];
        if !m.allow.is_empty() {
            want.push(("Allow".into(), Some(m.allow.join(", "))));
        }
        if m.deprecation {
            want.push(("Deprecation".into(), Some("true".into())));
        }
        let body = m.body.clone().unwrap_or_default();
        if m.has_len {
            want.push(("Content-Type".into(), m.content_type.map(|s| s.to_string())));
            want.push(("Content-Length".into(), Some(body.len().to_string())));
            if m.encoding {
                want.push(("Accept-Encoding".into(), Some("identity".into())));
            }
        }
        let names_got: Vec<&str> = p.headers.iter().map(|(k, _)| k.as_str()).collect();
        let names_want: Vec<&str> = want.iter().map(|(k, _)| k.as_str()).collect();
        if names_got != names_want {
            return Err(("header-lines".into(), format!("header lines {:?}, expected {:?} (status {}, body set: {})", names_got, names_want, m.code, m.body.is_some())));
        }
        for ((k, v), (_, w)) in p.headers.iter().zip(want.iter()) {
            match w {
                Some(w) if w != v => return Err(("header-value".into(), format!("{}: {:?}, expected {:?}", k, v, w))),
                None if k == "Content-Type" && v != "text/plain" && v != "application/json" => return Err(("header-value".into(), format!("Content-Type: {:?}", v))),
                None if v.is_empty() => return Err(("header-value".into(), format!("{}: empty", k))),
                _ => {}
            }
        }
        if p.body != body {
            return Err(("body".into(), format!("reader recovered a body of {} bytes, {} were set", p.body.len(), body.len())));
        }
        // self-delimiting: whatever follows on the stream, the first response reads the same
        for follow in [&b"HTTP/1.1 200 \r\nServer: x\r\nConnection: keep-alive\r\nContent-Type: text/plain\r\nContent-Length: 1\r\n\r\nZ"[..], &b"\r\n\r\n"[..], &whole[..]] {
            let mut cat = whole.clone();
            cat.extend_from_slice(follow);
            match read_one(&cat) {
                ReadResult::Complete(q) if q == p => {}
                other => return Err(("not-self-delimiting".into(), format!("followed by {:?} the first response reads as {:?}", util::show(&follow[..follow.len().min(30)]), other))),
            }
        }
        let mut cat = whole.clone();
        cat.extend_from_slice(&whole);
        cat.extend_from_slice(&whole);
        let (rs, used, tail) = read_all(&cat);
        if rs.len() != 3 || used != cat.len() || tail.is_err() || rs.iter().any(|x| *x != p) {
            return Err(("not-self-delimiting".into(), "three concatenated copies do not read back as three identical responses".into()));
        }
        Ok(())
    }
}

struct ChunkSink {
    out: Vec<u8>,
    pattern: Vec<usize>,
    i: usize,
}
impl Write for ChunkSink {
    fn write(&mut self, buf: &[u8]) -> std::io::Result<usize> {
        let n = self.pattern[self.i % self.pattern.len()].min(buf.len());
        self.i += 1;
        if self.pattern[(self.i - 1) % self.pattern.len()] == 0 {
            return Err(std::io::Error::from(std::io::ErrorKind::Interrupted));
        }
        self.out.extend_from_slice(&buf[..n]);
        Ok(n)
    }
    fn flush(&mut self) -> std::io::Result<()> {
        Ok(())
    }
}

impl System for Sys {
    type A = Call;
    fn enc(a: Call) -> u64 {
        enc(a)
    }
    fn dec(x: u64) -> Call {
        dec(x)
    }
    fn run(&self, path: &[Call]) -> Outcome<Call> {
        let built = util::catch(|| self.build(path));
        let (r, m) = match built {
            Ok(x) => x,
            Err(p) => {
                return Outcome {
                    key: util::hash128(&[b"panic", &path.len().to_le_bytes()]),
                    enabled: vec![],
                    violation: Some(Violation { signature: "panic".into(), detail: format!("builder call sequence {:?} panicked: {}", path, p), replay: self.replay_json(path) }),
                    obs: 0,
                    nontrivial: false,
                    facts: 0,
                    impl_facts: 0, aux: 0,
                }
            }
        };
        let mut enabled = vec![];
        let (key, violation, obs, nontrivial);
        match &r {
            None => {
                for v in 0..2 {
                    for s in 0..STATUSES.len() {
                        enabled.push(Call::New(v, s as u8));
                    }
                }
                key = util::hash128(&[b"root"]);
                violation = None;
                obs = 0;
                nontrivial = false;
            }
            Some(resp) => {
                // product state: implementation (Debug rendering) x reference model
                key = util::hash128(&[format!("{:?}", resp).as_bytes(), format!("{:?}", m).as_bytes()]);
                let res = util::catch(|| self.check(resp, &m, key)).unwrap_or_else(|p| Err(("panic".into(), format!("serialization panicked: {}", p))));
                violation = res.err().map(|(s, d)| Violation { signature: s, detail: format!("after calls {:?}: {}", path, d), replay: self.replay_json(path) });
                obs = (key >> 64) as u64;
                nontrivial = m.body.is_some() || !m.allow.is_empty() || m.code == 100 || m.code == 204;
                if path.len() < 1 + self.max_calls {
                    for b in 0..self.bodies.len() {
                        enabled.push(Call::SetBody(b as u8));
                    }
                    enabled.extend_from_slice(&[Call::ContentType(0), Call::ContentType(1), Call::Deprecation, Call::Encoding, Call::Server(0), Call::Server(1), Call::Server(2)]);
                    for a in 0..3 {
                        enabled.push(Call::SetAllow(a));
                        enabled.push(Call::AllowMethod(a));
                    }
                    enabled.push(Call::SetAllow(3));
                }
            }
        }
        let facts = match (&r, &m) {
            (Some(_), m) => {
                (m.body.is_some() as u64)
                    | ((m.code == 100 || m.code == 204) as u64) << 1
                    | ((m.body.as_ref().map(|b| b.windows(4).any(|w| w == b"\r\n\r\n")).unwrap_or(false)) as u64) << 2
                    | ((m.allow.len() >= 2) as u64) << 3
                    | ((m.encoding && !m.has_len) as u64) << 4
            }
            _ => 0,
        };
        Outcome { key, enabled, violation, obs, nontrivial, facts, impl_facts: 0 , aux: 0}
    }
    fn trace(&self, path: &[Call]) -> Value {
        let (r, _) = self.build(path);
        let mut bytes = vec![];
        if let Some(r) = &r {
            let _ = r.write_all(&mut bytes);
        }
        let key = util::hash128(&[b"t"]);
        let verdict = match (&r, self.build(path).1) {
            (Some(r), m) => self.check(r, &m, key).err(),
            _ => None,
        };
        json!({"calls": path.iter().map(|c| format!("{:?}", c)).collect::<Vec<_>>(), "serialized": util::show(&bytes), "violation": verdict.map(|(s, d)| json!({"signature": s, "detail": d}))})
    }
    fn fact_names(&self) -> Vec<&'static str> {
        vec!["body_set", "status_100_or_204", "body_contains_CRLFCRLF", "allow_with_two_or_more_methods", "encoding_requested_without_length"]
    }
}

impl Sys {
    fn replay_json(&self, path: &[Call]) -> Value {
        json!({"engine": "c05", "big": self.bodies.last().map(|b| b.len()), "max_calls": self.max_calls, "actions": path.iter().map(|c| enc(*c)).collect::<Vec<_>>(), "actions_readable": path.iter().map(|c| format!("{:?}", c)).collect::<Vec<_>>()})
    }
}

pub fn replay(v: &Value) -> (bool, Value) {
    if v["engine"] == "c05len" {
        let n = v["len"].as_u64().unwrap() as usize;
        let mut r = Response::new(Version::Http11, StatusCode::OK);
        r.set_body(Body::new(vec![b'x'; n]));
        let mut b = vec![];
        r.write_all(&mut b).unwrap();
        let res = read_one(&b);
        let bad = !matches!(&res, ReadResult::Complete(p) if p.len == b.len() && p.body.len() == n);
        return (bad, json!({"len": n, "head": util::show(&b[..b.len().min(160)]), "read": format!("{:?}", res).chars().take(300).collect::<String>()}));
    }
    let sys = Sys { bodies: bodies(v["big"].as_u64().unwrap_or(2000) as usize), max_calls: v["max_calls"].as_u64().unwrap_or(5) as usize };
    let path: Vec<Call> = v["actions"].as_array().unwrap().iter().map(|x| dec(x.as_u64().unwrap())).collect();
    let t = sys.trace(&path);
    (!t["violation"].is_null(), t)
}

pub fn run(thorough: bool) -> Vec<Part> {
    if small_build() {
        return vec![];
    }
    let mut part = Part::new("C05", "builder-states-r", "model_checking");
    part.assume("breadth-first search over Response builder states: 2 versions x 11 status codes x all call sequences of length <= N (N = 4 quick, 5 thorough) over set_body (8 bodies: empty, 1 byte, contains CRLFCRLF, looks like a response, NUL/0xFF/CRLF bytes, large, and two more of the same lengths as earlier ones with different bytes), set_content_type x2, set_deprecation, set_encoding, set_server x3 (one of 280 bytes), set_allow x4 (one with 40 methods), allow_method x3, de-duplicated on the pair (Debug rendering of the Response, reference model state); a sweep over body lengths (every length 0..4200 plus boundaries up to 64 KiB quick; every length 0..65536 thorough); every state is serialized into sinks accepting 1, 2, 3, 7, 64 bytes per write, 6 mixed patterns and 6 patterns with interrupted writes (EINTR) between short ones and re-read by an independent response reader, alone and followed by other bytes");
    part.assume("the default Content-Type and Server values are not judged (the statement names the lines, not their defaults); set_content_length is exercised only by the 'unless explicitly set' side check; header text containing CR/LF passed to set_server is outside the property");
    let sys = Sys { bodies: bodies(if thorough { 65536 } else { 9000 }), max_calls: if thorough { 5 } else { 4 } };
    let limits = Limits { max_states: 12_000_000, max_secs: if thorough { 3000.0 } else { 100.0 }, ..Default::default() };
    let st = bfs(&sys, &limits, workers());
    record(&mut part, "builder-states", &st);
    for (v, _) in &st.violations {
        part.violations.push(v.clone());
    }
    // the bytes of a response are a function of its builder calls alone: the same calls before and
    // after other parts of the API were used on the same thread (a router with its own identity
    // and content type serving requests, the request parser, another response)
    {
        let small = Sys { bodies: bodies(64), max_calls: 2 };
        let mut paths: Vec<Vec<Call>> = vec![];
        for v in 0..2u8 {
            for sc in 0..STATUSES.len() as u8 {
                paths.push(vec![Call::New(v, sc)]);
                for c in [Call::SetBody(1), Call::SetBody(0), Call::ContentType(0), Call::Deprecation, Call::Encoding, Call::Server(0), Call::SetAllow(2), Call::AllowMethod(1)] {
                    paths.push(vec![Call::New(v, sc), c]);
                }
            }
        }
        let render = |paths: &Vec<Vec<Call>>| -> Vec<Vec<u8>> {
            paths
                .iter()
                .map(|p| {
                    let mut b = vec![];
                    if let (Some(r), _) = small.build(p) {
                        let _ = r.write_all(&mut b);
                    }
                    b
                })
                .collect()
        };
        let before = render(&paths);
        {
            struct Hd;
            impl micro_http::EndpointHandler<()> for Hd {
                fn handle_request(&self, _r: &micro_http::Request, _a: &()) -> Response {
                    let mut r = Response::new(Version::Http10, StatusCode::NoContent);
                    r.set_server("handler");
                    r
                }
            }
            let mut router: micro_http::HttpRoutes<()> = micro_http::HttpRoutes::new("another-identity".to_string(), "/api".to_string());
            let _ = router.add_route(Method::Get, "/x".to_string(), Box::new(Hd));
            for raw in [&b"GET /api/x HTTP/1.1\r\n\r\n"[..], &b"PUT /nowhere HTTP/1.0\r\nContent-Length: 2\r\nAccept: text/plain\r\n\r\nab"[..]] {
                if let Ok(req) = micro_http::Request::try_from(raw, None) {
                    let mut b = vec![];
                    let _ = router.handle_http_request(&req, &()).write_all(&mut b);
                }
            }
        }
        let after = render(&paths);
        part.add("evaluations", 2 * paths.len() as u64);
        part.set("history_independence_paths", json!(paths.len()));
        if let Some(i) = (0..paths.len()).find(|i| before[*i] != after[*i]) {
            part.violations.push(Violation { signature: "history-dependent-bytes".into(), detail: format!("the calls {:?} serialise to {:?} on a fresh thread but to {:?} after a router with its own identity served requests on the same thread", paths[i], util::show(&before[i][..before[i].len().min(120)]), util::show(&after[i][..after[i].len().min(120)])), replay: json!({"engine": "none"}) });
        }
    }
    // side check: explicit set_content_length on 100/204 and removal elsewhere
    let mut side = 0u64;
    for (sc, code) in STATUSES {
        for explicit in [None, Some(0), Some(4)] {
            let mut r = Response::new(Version::Http11, sc);
            r.set_content_length(explicit);
            let mut b = vec![];
            r.write_all(&mut b).unwrap();
            side += 1;
            match read_one(&b) {
                ReadResult::Complete(p) => {
                    let has = p.header("Content-Length").is_some();
                    if has != explicit.is_some() {
                        part.violations.push(Violation { signature: "explicit-content-length".into(), detail: format!("status {} with set_content_length({:?}): Content-Length present = {}", code, explicit, has), replay: json!({"engine": "none"}) });
                    }
                }
                ReadResult::Incomplete if explicit == Some(4) => {}
                other => part.violations.push(Violation { signature: "explicit-content-length".into(), detail: format!("status {} with set_content_length({:?}) reads as {:?}", code, explicit, other), replay: json!({"engine": "none"}) }),
            }
        }
    }
    part.set("explicit_content_length_side_checks", json!(side));
    // body-length sweep: every body length in the quantified range (0..64 KiB)
    let lens: Vec<usize> = if thorough {
        (0..=65536usize).collect()
    } else {
        let mut v: Vec<usize> = (0..=4200usize).collect();
        let mut p10 = 10_000usize;
        while p10 <= 100_000 {
            for d in [-2i64, -1, 0, 1, 2, 99, 100, 101] {
                let x = p10 as i64 + d;
                if x <= 65536 {
                    v.push(x as usize);
                }
            }
            p10 *= 10;
        }
        for sh in 12..=16 {
            for d in [-1i64, 0, 1] {
                v.push(((1i64 << sh) + d).min(65536) as usize);
            }
        }
        let mut x = 4201;
        while x < 65536 {
            v.push(x);
            x += 251;
        }
        v.extend_from_slice(&[9999, 10999, 11000, 19999, 20000, 32767, 32768, 65535, 65536]);
        v.sort();
        v.dedup();
        v
    };
    let block = 64usize;
    let lens2 = lens.clone();
    let t = crate::par::par_enum(
        ((lens.len() + block - 1) / block) as u64,
        workers(),
        300,
        move |blk, t| {
            for &n in lens2.iter().skip(blk as usize * block).take(block) {
                for (sc, code) in [(StatusCode::OK, 200u16), (StatusCode::NoContent, 204)] {
                    let mut r = Response::new(Version::Http11, sc);
                    let body: Vec<u8> = (0..n).map(|i| (i % 251) as u8).collect();
                    r.set_body(Body::new(body.clone()));
                    let mut b = vec![];
                    r.write_all(&mut b).unwrap();
                    if n % 64 == 0 || (n % 4096) < 3 || (n % 4096) > 4093 {
                        // same bytes through a sink that accepts 1000 bytes per write
                        let mut sink = ChunkSink { out: vec![], pattern: if n % 2 == 0 { vec![1000] } else { vec![1000, 0, 50] }, i: 0 };
                        r.write_all(&mut sink).unwrap();
                        if sink.out != b {
                            t.violate("sink-dependent-bytes", format!("a {}-byte body written into a sink accepting 1000 bytes per write gives {} bytes, {} into a Vec", n, sink.out.len(), b.len()), json!({"engine": "c05len", "len": n}));
                        }
                    }
                    b.extend_from_slice(b"HTTP/1.1 204 \r\nServer: x\r\nConnection: keep-alive\r\n\r\n");
                    t.evals += 1;
                    if n >= 10 {
                        t.nontrivial += 1;
                    }
                    let (rs, used, tail) = read_all(&b);
                    let ok = tail.is_ok() && used == b.len() && rs.len() == 2 && rs[0].code == code && rs[0].body == body && rs[0].header("Content-Length") == Some(n.to_string().as_str()) && rs[1].code == 204;
                    if !ok {
                        t.violate("body-length-framing", format!("a {} response with a {}-byte body followed by another response does not read back: parsed {} responses using {} of {} bytes, Content-Length {:?}, tail {:?}", code, n, rs.len(), used, b.len(), rs.first().and_then(|r| r.header("Content-Length").map(|s| s.to_string())), tail), json!({"engine": "c05len", "len": n}));
                    }
                }
                if n == 1000 {
                    t.sample(json!({"body_length": n, "statuses": [200, 204]}));
                }
            }
        },
        |blk| format!("body lengths block {}", blk),
    );
    t.record(&mut part, "body-length-sweep");
    part.set("body_lengths_swept", json!(lens.len()));
    vec![part]
}
