//! C04 — payload and line-length limits are exact and enforced before buffering.
use crate::connx::{self, piece, Cfg, Class};
use crate::explore::{bfs, record, Limits};
use crate::par::par_enum;
use crate::props::{c01, small_build};
use crate::util::{workers, Part};
use serde_json::json;

fn line_of_len(prefix: &str, suffix: &str, total_with_crlf: usize) -> Vec<u8> {
    let fill = total_with_crlf - prefix.len() - suffix.len() - 2;
    let mut v = prefix.as_bytes().to_vec();
    v.extend(std::iter::repeat(b'a').take(fill));
    v.extend_from_slice(suffix.as_bytes());
    v.extend_from_slice(b"\r\n");
    v
}

pub fn limits_list(thorough: bool) -> Vec<usize> {
    let mut v: Vec<usize> = vec![0, 1, 2, 3, 4, 5, 1023, 1024, 1025, 51199, 51200, 51201, u32::MAX as usize, (1usize << 32) + 5];
    if thorough {
        v.extend_from_slice(&[6, 7, 8, 9, 10, 31, 32, 33, 2047, 2048, 2049, 65535, 65536, (u32::MAX - 1) as usize, 1usize << 32]);
    }
    v
}

pub fn run(thorough: bool) -> Vec<Part> {
    let mut parts = vec![];
    let b = connx::buffer_size();
    if small_build() {
        let mut part = Part::new("C04", "line-length-alphabet-s", "model_checking");
        part.assume("S-build: BUFFER_SIZE = 32 stands in for the 1024-byte line limit (same code, constant changed by cfg): request and header lines of every length 30..34 (46 thorough) at every buffer offset (offsets varied by 8-, 9- and 3-byte pieces) x all read sizes, to fixpoint; a line is rejected iff it is longer than the buffer including its CRLF");
        let mut pieces = vec![
            piece("rl_get", Class::ReqLine, b"GET / HTTP/1.1\r\n"),
            piece("h_xa", Class::Header, b"X-a: 1\r\n"),
            piece("h_xbb", Class::Header, b"X-bb: 2\r\n"),
            piece("h_cl3", Class::Header, b"Content-Length: 3\r\n"),
            piece("h_cl40", Class::Header, b"Content-Length: 40\r\n"),
            piece("h_cl41", Class::Header, b"Content-Length: 41\r\n"),
            piece("blank", Class::Blank, b"\r\n"),
            piece("body_abc", Class::Body, b"abc"),
        ];
        let lens: Vec<usize> = if thorough { (b - 4..=b + 14).collect() } else { (b - 2..=b + 2).collect() };
        for l in lens {
            pieces.push(piece(&format!("rl_len_{}", l), Class::ReqLine, &line_of_len("GET /", " HTTP/1.1", l)));
            pieces.push(piece(&format!("h_len_{}", l), Class::Header, &line_of_len("X-a: ", "", l)));
        }
        let mut cfg = Cfg::base("C04", "line-length-alphabet", pieces, 40);
        cfg.empty_reads = false;
        let limits = Limits { max_states: 8_000_000, max_secs: if thorough { 3000.0 } else { 120.0 }, ..Default::default() };
        let st = bfs(&cfg, &limits, workers());
        record(&mut part, "line-length-alphabet", &st);
        for (v, _) in &st.violations {
            part.violations.push(v.clone());
        }
        parts.push(part);
        return parts;
    }
    // ---------------- R-build ----------------
    let mut part = Part::new("C04", "limits-r", "model_checking");
    part.assume("R-build (BUFFER_SIZE 1024): (a) payload limit L x declared length n around L: the size-limit error (L, n) must be returned by the try_read that consumes the blank line, iff n > L, whatever the segmentation (all segmentations for short streams; greedy, every single cut, header-block-alone and one-byte reads otherwise); a delivered body has exactly n <= L bytes; (b) request/header lines of length 1000..1100 at every start offset 0..1023 under greedy reads and cuts at line end +-1 / buffer edge +-1; (c) all segmentations for line lengths 1024/1025 at offsets 0 and 1023");
    part.assume("the server part of C04 (limit captured at accept time, 400 body reports both numbers) is checked by the srvx engine part of this property");
    // (a) payload limits
    let ls = limits_list(thorough);
    let mut combos: Vec<(usize, u64)> = vec![];
    for &l in &ls {
        let mut ns: Vec<u64> = vec![0, 1, u32::MAX as u64];
        for d in [-1i64, 0, 1] {
            let n = l as i64 + d;
            if n >= 0 && n <= u32::MAX as i64 {
                ns.push(n as u64);
            }
        }
        // declared lengths that are not unsigned 32-bit decimals must be rejected as such
        ns.extend_from_slice(&[1u64 << 32, (1u64 << 32) + 3, (1u64 << 32) + l as u64 % 1000, 9_999_999_999]);
        ns.sort();
        ns.dedup();
        for n in ns {
            combos.push((l, n));
        }
    }
    combos.push((131072, 60000));
    combos.push((70000, 70000));
    combos.push((70000, 69999));
    part.set("limit_length_pairs", json!(combos.len()));
    let tail = b"GET /tail HTTP/1.1\r\n\r\n".to_vec();
    let mk_stream = |l: usize, n: u64| -> (Vec<u8>, usize) {
        // every third pair also asks for a 100 Continue: the limit decides first
        let expect = if (l as u64 + n) % 3 == 0 { "Expect: 100-continue\r\n" } else { "" };
        let head = format!("PUT /p HTTP/1.1\r\n{}Content-Length: {}\r\n\r\n", expect, n).into_bytes();
        let hl = head.len();
        let mut s = head;
        if n <= u32::MAX as u64 && (n as usize) <= l && n <= 70_000 {
            s.extend_from_slice(&c01::body_of(n as usize));
            s.extend_from_slice(&tail);
        } else {
            // over the limit (or too large to supply): a few would-be body bytes follow
            s.extend_from_slice(b"xyz");
        }
        (s, hl)
    };
    // (a1) all segmentations for short streams
    let mut graphs = 0;
    for &(l, n) in &combos {
        let (s, _) = mk_stream(l, n);
        if s.len() > 110 {
            continue;
        }
        let mut cfg = Cfg::base("C04", &format!("payload L={} n={}", l, n), vec![], l);
        cfg.stream = Some(s);
        cfg.empty_reads = false;
        let st = bfs(&cfg, &Limits::default(), workers().min(4));
        record(&mut part, &cfg.label, &st);
        graphs += 1;
        for (v, _) in &st.violations {
            part.violations.push(v.clone());
        }
    }
    // several body-carrying requests in one stream: each is judged on its own against L
    for (l, n1, n2) in [(10usize, 6usize, 6usize), (5, 5, 5), (5, 3, 3), (6, 6, 7)] {
        let mut s = format!("PUT /a HTTP/1.1\r\nContent-Length: {}\r\n\r\n", n1).into_bytes();
        s.extend(std::iter::repeat(b'a').take(n1));
        s.extend_from_slice(format!("PATCH /b HTTP/1.0\r\nContent-Length: {}\r\n\r\n", n2).as_bytes());
        s.extend(std::iter::repeat(b'b').take(n2));
        s.extend_from_slice(&tail);
        let mut cfg = Cfg::base("C04", &format!("two pipelined bodies L={} n={},{}", l, n1, n2), vec![], l);
        cfg.stream = Some(s);
        cfg.empty_reads = false;
        cfg.allow_defer = true;
        let st = bfs(&cfg, &Limits::default(), workers());
        record(&mut part, &cfg.label, &st);
        graphs += 1;
        for (v, _) in &st.violations {
            part.violations.push(v.clone());
        }
    }
    // (a0) the limit is changed by the application in the middle of the stream: whatever header
    // block completes after the change is judged by the new limit (every position of the change)
    {
        let mut runs = 0u64;
        for (l0, l1) in [(51200usize, 4usize), (4, 51200), (5, 4), (4, 5), (6, 5)] {
            let mut st = b"PUT /a HTTP/1.1\r\nX-a: 1\r\nContent-Length: 5\r\n\r\nhelloPUT /b HTTP/1.0\r\nContent-Length: 5\r\n\r\nworld".to_vec();
            st.extend_from_slice(&tail);
            for c in 0..st.len() {
                let mut cfg = Cfg::base("C04", &format!("limit {} -> {} after {} bytes", l0, l1, c), vec![], l0);
                cfg.stream = Some(st.clone());
                cfg.empty_reads = false;
                let mut e = crate::connx::Exec::new(&cfg, false);
                if c > 0 {
                    e.step(crate::connx::Act::Read(c as u16, 0));
                }
                if e.violation.is_none() && !e.terminal {
                    e.set_limit(l1);
                    let mut guard = 0;
                    while e.violation.is_none() && !e.terminal && !e.queue.is_empty() && guard < 64 {
                        e.step(crate::connx::Act::Read(crate::connx::KMASK, 0));
                        guard += 1;
                    }
                }
                runs += 1;
                if let Some((sig, d)) = e.finish_fds() {
                    part.violations.push(crate::util::Violation { signature: sig, detail: format!("[limit changed from {} to {} after {} stream bytes] {}", l0, l1, c, d), replay: json!({"engine": "c04limit", "l0": l0, "l1": l1, "at": c}) });
                    break;
                }
            }
        }
        part.add("transitions", runs);
        part.add("traces_validated_against_impl", runs);
        part.set("limit_changed_mid_stream_runs", json!(runs));
    }
    part.set("payload_graphs_all_segmentations", json!(graphs));
    // (a2) stateless schedules for every pair
    let t = par_enum(
        combos.len() as u64,
        workers(),
        120,
        |i, t| {
            let (l, n) = combos[i as usize];
            let (s, hl) = mk_stream(l, n);
            let mut cfg = Cfg::base("C04", &format!("payload L={} n={}", l, n), vec![], l);
            cfg.stream = Some(s.clone());
            cfg.empty_reads = false;
            let len = s.len();
            let mut scheds: Vec<Vec<usize>> = vec![vec![len], vec![hl, len - hl], vec![hl - 1, 1, len - hl], vec![hl - 2, 2, len - hl], vec![hl + 1, len - hl - 1]];
            let cut_max = len.min(300);
            for c in 1..cut_max {
                scheds.push(vec![c, len - c]);
            }
            if len <= 3000 {
                scheds.push(vec![1; len]);
            }
            for (si, segs) in scheds.iter().enumerate() {
                let segs: Vec<usize> = segs.iter().cloned().filter(|x| *x > 0).collect();
                let (v, obs, nreq, acts) = connx::run_segments(&cfg, &segs, si % 2 == 1);
                t.evals += 1;
                t.outcome(obs % 4096);
                if si == 0 {
                    t.count(if n > u32::MAX as u64 { "pairs_not_u32" } else if n as usize > l { "pairs_over_limit" } else { "pairs_within_limit" });
                    t.count(&format!("greedy_delivered_{}", nreq));
                    if (n as i64 - l as i64).abs() <= 1 {
                        t.nontrivial += 1;
                    }
                }
                if let Some((sig, detail)) = v {
                    t.violate(&sig, format!("[L={} n={} schedule {:?}] {}", l, n, &segs[..segs.len().min(6)], detail), connx::schedule_replay(&cfg, &acts));
                }
            }
            if i % 17 == 3 {
                t.sample(json!({"limit": l, "declared": n, "stream_len": len, "schedules": scheds.len()}));
            }
        },
        |i| format!("payload pair #{}", i),
    );
    t.record(&mut part, "payload-limit-schedules");
    // (b) line lengths x offsets
    let lens: Vec<usize> = (b - 24..=b + 76).collect();
    let noff = b;
    let kinds = 2usize;
    let total = lens.len() * noff * kinds;
    let block = 32usize;
    let t = par_enum(
        ((total + block - 1) / block) as u64,
        workers(),
        120,
        |blk, t| {
            for idx in (blk as usize * block)..((blk as usize + 1) * block).min(total) {
                let kind = idx % kinds;
                let off = (idx / kinds) % noff;
                let l = lens[idx / kinds / noff];
                let mut s = vec![];
                // place the line at buffer offset `off` when read greedily
                let rl = b"PUT /h HTTP/1.1\r\n";
                let lead = if kind == 0 { 0 } else { rl.len() };
                let want = (off + 4 * b - lead) % b; // bytes before the (request line of the) subject
                if want > 0 {
                    let pad = if want >= 27 { want } else { want + b };
                    s.extend_from_slice(&c01::prefix_request(pad));
                }
                let line_start = s.len() + lead;
                if kind == 0 {
                    s.extend_from_slice(&line_of_len("GET /", " HTTP/1.1", l));
                    s.extend_from_slice(b"X-a: 1\r\n\r\n");
                } else {
                    s.extend_from_slice(rl);
                    s.extend_from_slice(&line_of_len("X-a: ", "", l));
                    s.extend_from_slice(b"\r\n");
                }
                s.extend_from_slice(b"GET /tail HTTP/1.1\r\n\r\n");
                let line_end = line_start + l;
                let len = s.len();
                let mut cfg = Cfg::base("C04", &format!("{} of {} bytes at offset {}", if kind == 0 { "request line" } else { "header line" }, l, off), vec![], 51200);
                cfg.stream = Some(s);
                cfg.empty_reads = false;
                let edge = ((line_start / b) + 1) * b;
                let mut scheds: Vec<Vec<usize>> = vec![vec![len]];
                for c in [line_end - 1, line_end, line_end + 1, line_end - 2, edge - 1, edge, edge + 1, line_start, line_start + 1] {
                    if c > 0 && c < len {
                        scheds.push(vec![c, len - c]);
                    }
                }
                if line_start > 0 && line_start < line_end - 1 {
                    scheds.push(vec![line_start, line_end - 1 - line_start, len - (line_end - 1)]);
                }
                for segs in &scheds {
                    let (v, obs, _n, acts) = connx::run_segments(&cfg, segs, false);
                    t.evals += 1;
                    t.outcome(obs % 4096);
                    if let Some((sig, detail)) = v {
                        t.violate(&sig, format!("[{} schedule {:?}] {}", cfg.label, segs, detail), connx::schedule_replay(&cfg, &acts));
                    }
                }
                if l + 1 >= b && l <= b + 2 {
                    t.nontrivial += 1;
                }
                t.count(if l > b { "lines_over_limit" } else { "lines_within_limit" });
                if idx % 50021 == 7 {
                    t.sample(json!({"case": cfg.label, "stream_len": len, "schedules": scheds.len()}));
                }
            }
        },
        |blk| format!("line-length block {}", blk),
    );
    t.record(&mut part, "line-length-offsets");
    // (c) all segmentations for the boundary lengths
    let offs: Vec<usize> = if thorough { vec![0, 1, 500, b - 2, b - 1] } else { vec![0, b - 1] };
    let blens: Vec<usize> = if thorough { vec![b - 1, b, b + 1, b + 2] } else { vec![b, b + 1] };
    for kind in 0..2 {
        for &off in &offs {
            for &l in &blens {
                let mut s = vec![];
                let rl = b"PUT /h HTTP/1.1\r\n";
                let lead = if kind == 0 { 0 } else { rl.len() };
                let want = (off + 4 * b - lead) % b;
                if want > 0 {
                    s.extend_from_slice(&c01::prefix_request(if want >= 27 { want } else { want + b }));
                }
                if kind == 0 {
                    s.extend_from_slice(&line_of_len("GET /", " HTTP/1.1", l));
                    s.extend_from_slice(b"X-a: 1\r\n\r\n");
                } else {
                    s.extend_from_slice(rl);
                    s.extend_from_slice(&line_of_len("X-a: ", "", l));
                    s.extend_from_slice(b"\r\n");
                }
                s.extend_from_slice(b"GET /tail HTTP/1.1\r\n\r\n");
                let mut cfg = Cfg::base("C04", &format!("allseg {} len {} off {}", if kind == 0 { "reqline" } else { "header" }, l, off), vec![], 51200);
                cfg.stream = Some(s);
                cfg.empty_reads = false;
                let st = bfs(&cfg, &Limits::default(), workers());
                record(&mut part, &cfg.label, &st);
                for (v, _) in &st.violations {
                    part.violations.push(v.clone());
                }
            }
        }
    }
    part.set("rule", json!("payload: every (L, n) pair x schedules; lines: every (kind, length 1000..1100, offset 0..1023) x schedules; non-trivial = n within 1 of L / line length within 1024-1..1024+2"));
    parts.push(part);
    parts.push(crate::props::srv::c04_server(thorough));
    parts
}
