//! C17 — the router dispatches to exactly the handler registered for (method, prefix+path).
use crate::par::par_enum;
use crate::props::small_build;
use crate::spec::response::{read_one, ReadResult};
use crate::util::{self, workers, Part};
use micro_http::{EndpointHandler, HttpRoutes, Method, Request, Response, StatusCode, Version};
use serde_json::json;
use std::collections::BTreeMap;
use std::sync::Mutex;

struct Log(Mutex<Vec<usize>>);
struct H(usize);
impl EndpointHandler<Log> for H {
    fn handle_request(&self, _req: &Request, arg: &Log) -> Response {
        arg.0.lock().unwrap().push(self.0);
        let mut r = Response::new(Version::Http11, StatusCode::OK);
        r.set_body(micro_http::Body::new(format!("h{}", self.0)));
        if self.0 % 2 == 1 {
            // a handler with its own ideas: the router stamps every response all the same
            r.set_content_type(micro_http::MediaType::PlainText);
            r.set_server("handler-own");
        }
        r
    }
}

const METHODS: [Method; 3] = [Method::Get, Method::Put, Method::Patch];
const PATHS: [&str; 6] = ["", "/", "/a", "/a/b", "/a:b", "/ab"];
// (the second prefix is itself a prefix of several registered paths)
const PREFIXES: [&str; 3] = ["", "/a", "/q/"];

fn mname(m: Method) -> &'static str {
    match m {
        Method::Get => "GET",
        Method::Put => "PUT",
        Method::Patch => "PATCH",
    }
}

fn case(prefix: &str, regs: &[(usize, usize)], pair_tables: usize, t: &mut crate::par::Tally) {
    // the configured identity varies with the case (incl. the empty one and one with a space)
    let server_id = ["router-id", "", "srv 2"][(regs.len() + regs.iter().map(|(m, p)| m + p).sum::<usize>()) % 3];
    let mut router: HttpRoutes<Log> = HttpRoutes::new(server_id.to_string(), prefix.to_string());
    let mut reference: BTreeMap<(usize, String), usize> = BTreeMap::new();
    for (i, (m, p)) in regs.iter().enumerate() {
        let r = router.add_route(METHODS[*m], PATHS[*p].to_string(), Box::new(H(i)));
        let full = format!("{}{}", prefix, PATHS[*p]);
        let fresh = !reference.contains_key(&(*m, full.clone()));
        if fresh {
            reference.insert((*m, full), i);
        }
        t.evals += 1;
        if r.is_ok() != fresh {
            t.violate("registration", format!("add_route #{} ({} {:?}) with prefix {:?} after {:?}: returned {}, expected {}", i, mname(METHODS[*m]), PATHS[*p], prefix, &regs[..i], if r.is_ok() { "Ok" } else { "Err" }, if fresh { "Ok" } else { "Err (duplicate)" }), json!({"engine": "c17", "prefix": prefix, "regs": regs}));
        }
    }
    // requests: every method x (prefix+path, bare path, near misses) in origin and absolute form
    let mut targets: Vec<String> = vec![];
    for p in PATHS {
        targets.push(format!("{}{}", prefix, p));
        targets.push(p.to_string());
        targets.push(format!("{}{}/", prefix, p));
        targets.push(format!("{}{}{}", prefix, prefix, p));
    }
    targets.push("/p".into());
    targets.push("/p:/a".into());
    targets.sort();
    targets.dedup();
    let mut reqs: Vec<(usize, String)> = vec![];
    for (mi, _) in METHODS.iter().enumerate() {
        for tpath in &targets {
            for absolute in [false, true] {
                let uri = if absolute { format!("http://h{}", tpath) } else { tpath.clone() };
                if uri.is_empty() || uri.contains(' ') {
                    continue;
                }
                reqs.push((mi, uri));
            }
        }
    }
    let dispatch = |mi: usize, uri: &str, when: &str, t: &mut crate::par::Tally| {
        let m = &METHODS[mi];
        let bytes = format!("{} {} HTTP/1.1\r\n\r\n", mname(*m), uri).into_bytes();
        let req = match Request::try_from(&bytes, None) {
            Ok(r) => r,
            Err(_) => return,
        };
        // the request's absolute path by the documented rule
        let abs = crate::props::c16::abs_path(uri).to_string();
        let want = reference.get(&(mi, abs.clone())).cloned();
        let log = Log(Mutex::new(vec![]));
        let resp = router.handle_http_request(&req, &log);
        let calls = log.0.lock().unwrap().clone();
        t.evals += 1;
        if want.is_some() {
            t.nontrivial += 1;
        }
        let want_calls: Vec<usize> = want.into_iter().collect();
        if calls != want_calls {
            t.violate("dispatch", format!("{} {} (abs path {:?}) with prefix {:?} and registrations {:?}{}: handlers invoked {:?}, expected {:?}", mname(*m), uri, abs, prefix, regs.iter().map(|(m, p)| format!("{} {}", mname(METHODS[*m]), PATHS[*p])).collect::<Vec<_>>(), when, calls, want_calls), json!({"engine": "c17", "prefix": prefix, "regs": regs}));
            return;
        }
        let mut b = vec![];
        resp.write_all(&mut b).unwrap();
        match read_one(&b) {
            ReadResult::Complete(p) => {
                let code_ok = if want_calls.is_empty() { p.code == 404 } else { p.code == 200 && p.body == format!("h{}", want_calls[0]).into_bytes() };
                if !code_ok || p.header("Server").map(|x| x.trim()) != Some(server_id.trim()) || p.header("Content-Type") != Some("application/json") {
                    t.violate("stamp", format!("response for {} {}{}: code {} Server {:?} Content-Type {:?} body {:?}", mname(*m), uri, when, p.code, p.header("Server"), p.header("Content-Type"), util::show(&p.body)), json!({"engine": "c17", "prefix": prefix, "regs": regs}));
                }
            }
            other => t.violate("stamp", format!("router response unreadable: {:?}", other), json!({"engine": "c17", "prefix": prefix, "regs": regs})),
        }
    };
    // one router serves all requests: in enumeration order, then in the reverse order (what a
    // request gets does not depend on the requests served before it)
    for (mi, uri) in &reqs {
        dispatch(*mi, uri, "", t);
    }
    for (mi, uri) in reqs.iter().rev() {
        dispatch(*mi, uri, " (second pass, reverse order)", t);
    }
    // small tables: every ordered pair of requests back to back on the same router
    if regs.len() <= pair_tables {
        for (i, (mi, uri)) in reqs.iter().enumerate() {
            for (j, (mj, urj)) in reqs.iter().enumerate() {
                if i == j || !t.violations.is_empty() {
                    continue;
                }
                dispatch(*mi, uri, " (pairs)", t);
                dispatch(*mj, urj, &format!(" (directly after {} {})", mname(METHODS[*mi]), uri), t);
            }
        }
    }
}

pub fn replay(v: &serde_json::Value) -> (bool, serde_json::Value) {
    let mut t = crate::par::Tally::default();
    let regs: Vec<(usize, usize)> = v["regs"].as_array().unwrap().iter().map(|x| (x[0].as_u64().unwrap() as usize, x[1].as_u64().unwrap() as usize)).collect();
    case(v["prefix"].as_str().unwrap(), &regs, 2, &mut t);
    (!t.violations.is_empty(), json!({"violations": t.violations.iter().map(|v| v.detail.clone()).collect::<Vec<_>>()}))
}

pub fn run(thorough: bool) -> Vec<Part> {
    if small_build() {
        return vec![];
    }
    let mut part = Part::new("C17", "router-tables-r", "exploration");
    part.assume("prefixes {``, `/p`, `/q/`} x all registration sequences of length <= N (N = 4 quick, 5 thorough) over 3 methods x paths {``, `/`, `/a`, `/a/b`, `/a:b`, `/ab`} (duplicates included) x all requests over 3 methods x (prefix+path, bare path, trailing-slash and doubled-prefix near misses) in origin form and `http://h...` absolute form; handlers record their invocations through the argument; reference = map (method, prefix+path) -> first registered handler; every second handler sets its own content type and server identity; all requests of a table go to one router, in enumeration order and again in reverse order; for tables of <= 1 (thorough: 2) registrations every ordered pair of requests is served back to back");
    let n = if thorough { 5 } else { 4 };
    let r = (METHODS.len() * PATHS.len()) as u64;
    let mut total = 0u64;
    for d in 0..=n {
        total += r.pow(d);
    }
    let total_all = total * PREFIXES.len() as u64;
    let t = par_enum(
        total_all,
        workers(),
        120,
        |i, t| {
            let prefix = PREFIXES[(i % 3) as usize];
            let mut i = i / 3;
            let mut d = 0;
            while i >= r.pow(d) {
                i -= r.pow(d);
                d += 1;
            }
            let mut regs = vec![];
            for _ in 0..d {
                let x = (i % r) as usize;
                i /= r;
                regs.push((x % 3, x / 3));
            }
            case(prefix, &regs, if thorough { 2 } else { 1 }, t);
            if d == 3 && i == 0 && t.samples.is_empty() {
                t.sample(json!({"prefix": prefix, "registrations": regs.iter().map(|(m, p)| format!("{} {:?}", mname(METHODS[*m]), PATHS[*p])).collect::<Vec<_>>()}));
            }
        },
        |i| format!("route table #{}", i),
    );
    t.record(&mut part, "route-tables");
    // long paths: every path length 1..300 (registered together with the path one byte shorter
    // and one byte longer), all three methods, both request forms
    {
        let mut t = crate::par::Tally::default();
        for len in 2..=300usize {
            for (mi, m) in METHODS.iter().enumerate() {
                let mk = |n: usize| -> String { format!("/{}", "x".repeat(n - 1)) };
                let mut router: HttpRoutes<Log> = HttpRoutes::new("router-id".to_string(), String::new());
                for (i, n) in [len - 1, len, len + 1].iter().enumerate() {
                    let _ = router.add_route(*m, mk(*n), Box::new(H(i)));
                }
                for (i, n) in [len - 1, len, len + 1, len + 2].iter().enumerate() {
                    for absolute in [false, true] {
                        let uri = if absolute { format!("http://h{}", mk(*n)) } else { mk(*n) };
                        let bytes = format!("{} {} HTTP/1.1\r\n\r\n", mname(*m), uri).into_bytes();
                        let req = match Request::try_from(&bytes, None) {
                            Ok(r) => r,
                            Err(_) => continue,
                        };
                        let log = Log(Mutex::new(vec![]));
                        let _ = router.handle_http_request(&req, &log);
                        let calls = log.0.lock().unwrap().clone();
                        let want: Vec<usize> = if i < 3 { vec![i] } else { vec![] };
                        t.evals += 1;
                        t.nontrivial += 1;
                        if calls != want {
                            t.violate("dispatch", format!("{} request for a path of {} bytes (routes registered for {} / {} / {} bytes): handlers invoked {:?}, expected {:?}", mname(*m), n, len - 1, len, len + 1, calls, want), json!({"engine": "none", "len": n, "method": mi}));
                        }
                    }
                }
            }
        }
        t.sample(json!({"long_paths": "lengths 2..300 x 3 methods x origin/absolute form"}));
        t.record(&mut part, "long-paths");
    }
    part.set("route_tables", json!(total_all));
    part.set("rule", json!("every (prefix, registration sequence) x every request; evaluations count add_route calls and dispatches; non-trivial = the request matches a registered (method, prefix+path)"));
    part.set("exhaustive", json!(true));
    vec![part]
}
