//! C15 — header rules: case-insensitive names, trimmed values, tolerant vs fatal faults.
use crate::explore::{bfs, record, Limits, Outcome, System};
use crate::par::par_enum;
use crate::props::small_build;
use crate::spec::headers::{self as sh, SpecHeaders, Verdict};
use crate::util::{self, workers, Part, Violation};
use micro_http::{Encoding, Headers, HttpHeaderError, RequestError};
use serde_json::{json, Value};

/// The line alphabet: recognised names x supported / unsupported / malformed values x padding;
/// custom names; 0/1/3-colon lines; invalid UTF-8.
pub fn lines() -> Vec<Vec<u8>> {
    let mut v: Vec<Vec<u8>> = vec![];
    let mut add = |s: &str| v.push(s.as_bytes().to_vec());
    add("Content-Length: 5");
    add("Content-Length: 0");
    add("content-length:007");
    add("CONTENT-LENGTH:\t4294967295 ");
    add("Content-Length: 4294967296");
    add("Content-Length: -1");
    add("Content-Length: -0");
    add("Content-Length: -000");
    add("Content-Length: 1x");
    add("Content-Length:");
    add("Content-Length\u{a0}:\u{3000}12\u{a0}");
    add("Content-Type: text/plain");
    add("Content-Type: application/json");
    add("Content-Type: text/html");
    add("content-TYPE:");
    add("Accept: application/json");
    add("ACCEPT:  text/plain ");
    add("Accept: */*");
    add("Transfer-Encoding: chunked");
    add("Transfer-Encoding: identity");
    add("transfer-encoding: gzip");
    add("Expect: 100-continue");
    add("\texpect :100-continue\t");
    add("Expect: 103-checkpoint");
    add("Expect: 100-Continue");
    add("Expect: 100-continue, 102-processing");
    add("Expect: 100-continue,");
    add("Expect: chunked");
    add("Expect: identity");
    add("Transfer-Encoding: 100-continue");
    add("Transfer-Encoding: chunked, identity");
    add("Accept: text/plain, application/json");
    add("Content-Type: chunked");
    add("Server: anything: at all");
    add("Accept-Encoding: gzip, deflate");
    add("Accept-Encoding: identity;q=0");
    add("Accept-Encoding: *;q=0");
    add("accept-encoding: *;q=0, identity");
    add("Accept-Encoding: gzip , identity;q=0");
    add("Accept-Encoding:");
    add("Accept-Encoding:   ");
    add("X-Custom: one");
    add("X-Custom: two ");
    add(" x-custom :three");
    add("X-Other:a:b:c");
    add("X-Empty:");
    add(":novalue-name");
    add("no colon here");
    add(" ");
    add("\t");
    add("\u{a0}\u{3000}");
    add("Content-Length 5");
    add("\u{e9}t\u{e9}: \u{4e16}");
    v.push(b"X-Bad: \xff\xfe".to_vec());
    v.push(b"\xc3(: x".to_vec());
    v.push(b"Content-Length: 5\xff".to_vec());
    v
}

fn class_of(r: &Result<(), RequestError>) -> Verdict {
    match r {
        Ok(()) => Verdict::Applied,
        Err(RequestError::HeaderError(HttpHeaderError::UnsupportedValue(_, _))) => Verdict::Ignored,
        Err(_) => Verdict::Fatal(sh::Fault::NoColon), // the fault detail is not compared
    }
}

fn same_class(a: Verdict, b: Verdict) -> bool {
    matches!((a, b), (Verdict::Applied, Verdict::Applied) | (Verdict::Ignored, Verdict::Ignored) | (Verdict::Fatal(_), Verdict::Fatal(_)))
}

pub struct LineSys {
    pub lines: Vec<Vec<u8>>,
}

impl System for LineSys {
    type A = u16;
    fn enc(a: u16) -> u64 {
        a as u64
    }
    fn dec(x: u64) -> u16 {
        x as u16
    }
    fn run(&self, path: &[u16]) -> Outcome<u16> {
        let mut h = Headers::default();
        let mut s = SpecHeaders::default();
        let mut violation = None;
        let mut dead = false;
        for (i, l) in path.iter().enumerate() {
            let line = &self.lines[*l as usize];
            let before = sh::view(&h);
            let r = util::catch(|| h.parse_header_line(line));
            let r = match r {
                Ok(r) => r,
                Err(p) => {
                    violation = Some(("panic".to_string(), format!("parse_header_line({:?}) panicked: {}", util::show(line), p)));
                    break;
                }
            };
            let want = s.apply_line(line);
            if want == Verdict::Unjudged {
                dead = true;
                break;
            }
            let got = class_of(&r);
            let after = sh::view(&h);
            if i + 1 == path.len() {
                if !same_class(got, want) {
                    violation = Some(("line-verdict".to_string(), format!("after lines {:?}, line {:?}: implementation says {:?} ({:?}), the rules say {:?}", path[..i].iter().map(|x| util::show(&self.lines[*x as usize])).collect::<Vec<_>>(), util::show(line), got, r, want)));
                } else if after != s {
                    violation = Some(("headers-state".to_string(), format!("after line {:?}: headers are {:?}, the rules give {:?} (before: {:?})", util::show(line), after, s, before)));
                }
            }
            if matches!(want, Verdict::Fatal(_)) {
                // a fatal line rejects the request; the Headers value is not used further
                dead = true;
                break;
            }
        }
        let view = sh::view(&h);
        // product state: implementation view x reference headers
        let key = util::hash128(&[format!("{:?}{}", view, dead).as_bytes(), format!("{:?}", s).as_bytes()]);
        let enabled = if dead || violation.is_some() { vec![] } else { (0..self.lines.len() as u16).collect() };
        Outcome {
            key,
            enabled,
            violation: violation.map(|(sg, d)| Violation { signature: sg, detail: d, replay: json!({"engine": "c15line", "actions": path}) }),
            obs: (key >> 64) as u64,
            nontrivial: view != SpecHeaders::default(),
            facts: 0,
            impl_facts: 0, aux: 0,
        }
    }
    fn trace(&self, path: &[u16]) -> Value {
        let o = self.run(path);
        json!({"lines": path.iter().map(|x| util::show(&self.lines[*x as usize])).collect::<Vec<_>>(), "violation": o.violation.map(|v| json!({"signature": v.signature, "detail": v.detail}))})
    }
    fn fact_names(&self) -> Vec<&'static str> {
        vec![]
    }
}

fn block_case(lines: &[&[u8]], t: &mut crate::par::Tally) {
    let mut block = vec![];
    for l in lines {
        block.extend_from_slice(l);
        block.extend_from_slice(b"\r\n");
    }
    block.extend_from_slice(b"\r\n");
    t.evals += 1;
    // the rules: fold the lines one by one
    let mut s = SpecHeaders::default();
    let mut want_ok = true;
    for l in lines {
        match s.apply_line(l) {
            Verdict::Applied | Verdict::Ignored => {}
            Verdict::Fatal(_) => {
                want_ok = false;
                break;
            }
            Verdict::Unjudged => return,
        }
    }
    // a later non-UTF-8 line rejects the block as a whole even if an earlier line is fatal: both reject
    let got = match util::catch(|| Headers::try_from(&block)) {
        Ok(g) => g,
        Err(p) => {
            t.violate("panic", format!("Headers::try_from panicked on {:?}: {}", util::show(&block), p), json!({"engine": "c15block", "block": util::hex(&block)}));
            return;
        }
    };
    // and folding the implementation's own line parser with the documented ignore rule
    let mut h = Headers::default();
    let mut fold_ok = true;
    for l in lines {
        match h.parse_header_line(l) {
            Ok(()) | Err(RequestError::HeaderError(HttpHeaderError::UnsupportedValue(_, _))) => {}
            Err(_) => {
                fold_ok = false;
                break;
            }
        }
    }
    if lines.len() >= 2 {
        t.nontrivial += 1;
    }
    match (&got, want_ok) {
        (Ok(g), true) => {
            let v = sh::view(g);
            if v != s {
                t.violate("block-result", format!("Headers::try_from({:?}) = {:?}, the rules give {:?}", util::show(&block), v, s), json!({"engine": "c15block", "block": util::hex(&block)}));
            }
            if !fold_ok || sh::view(&h) != v {
                t.violate("block-vs-lines", format!("block parsing and line-by-line parsing differ on {:?}", util::show(&block)), json!({"engine": "c15block", "block": util::hex(&block)}));
            }
        }
        (Err(_), false) => {
            // an all-UTF-8 block must also be rejected line by line
            if fold_ok && std::str::from_utf8(&block).is_ok() {
                t.violate("block-vs-lines", format!("block rejected but its lines are accepted one by one: {:?}", util::show(&block)), json!({"engine": "c15block", "block": util::hex(&block)}));
            }
        }
        (Ok(_), false) => {
            // A non-UTF-8 line after ... cannot be Ok; so this is a genuine acceptance of a fatal block
            t.violate("block-accepts-fatal", format!("Headers::try_from accepts {:?} although a line of it is fatal", util::show(&block)), json!({"engine": "c15block", "block": util::hex(&block)}));
        }
        (Err(e), true) => {
            // whole-block UTF-8 validation can only reject where some line is not UTF-8, which the rules call fatal too
            t.violate("block-rejects-valid", format!("Headers::try_from rejects {:?} with {:?} although every line is acceptable", util::show(&block), e), json!({"engine": "c15block", "block": util::hex(&block)}));
        }
    }
}

pub fn replay(v: &Value) -> (bool, Value) {
    if v["engine"] == "c15line" {
        let sys = LineSys { lines: lines() };
        let path: Vec<u16> = v["actions"].as_array().unwrap().iter().map(|x| x.as_u64().unwrap() as u16).collect();
        let t = sys.trace(&path);
        return (!t["violation"].is_null(), t);
    }
    let block = util::unhex(v["block"].as_str().unwrap());
    let text = &block[..block.len().saturating_sub(4)];
    let ls: Vec<&[u8]> = split_crlf(text);
    let mut t = crate::par::Tally::default();
    block_case(&ls, &mut t);
    (!t.violations.is_empty(), json!({"violations": t.violations.iter().map(|v| v.detail.clone()).collect::<Vec<_>>()}))
}

fn split_crlf(b: &[u8]) -> Vec<&[u8]> {
    let mut out = vec![];
    let mut start = 0;
    let mut i = 0;
    while i + 1 < b.len() {
        if b[i] == b'\r' && b[i + 1] == b'\n' {
            out.push(&b[start..i]);
            start = i + 2;
            i += 2;
        } else {
            i += 1;
        }
    }
    out.push(&b[start..]);
    out
}

pub fn run(thorough: bool) -> Vec<Part> {
    if small_build() {
        return vec![];
    }
    let mut part = Part::new("C15", "header-rules-r", "model_checking");
    part.assume("(a) Headers::parse_header_line as a transition function: all reachable Headers values x all alphabet lines, to fixpoint (sequences of any length); (b) every letter-case pattern of the 7 recognised names with a supported value; (c) header blocks of <= N lines (3 quick, 5 thorough) over the full alphabet and M lines (5 quick, 7 thorough) over a 12-line sub-alphabet: Headers::try_from vs the rules folded line by line vs the implementation's own line parser folded with the documented ignore rule; (d) Encoding::try_from on all comma lists of <= 3 items over {identity, identity;q=0, *;q=0, gzip, ``, ` `}");
    part.assume("only the class of a verdict (applied / ignored / fatal) is compared, never the error variant or message; `Content-Length: +5` is not in the alphabet; whitespace-only arguments of Encoding::try_from called directly are not judged (in header context the value is trimmed first and is then empty = fatal)");
    let all = lines();
    let sys = LineSys { lines: all.clone() };
    let st = bfs(&sys, &Limits { max_states: 3_000_000, max_secs: 600.0, ..Default::default() }, workers());
    record(&mut part, "header-line-transition-function", &st);
    for (v, _) in &st.violations {
        part.violations.push(v.clone());
    }
    part.set("alphabet_lines", json!(all.len()));
    // (b) letter-case patterns
    let names: Vec<(&str, &str)> = vec![
        ("content-length", "5"), ("content-type", "text/plain"), ("expect", "100-continue"), ("transfer-encoding", "chunked"),
        ("server", "x"), ("accept", "application/json"), ("accept-encoding", "identity;q=0"),
    ];
    let mut jobs: Vec<(usize, u32)> = vec![];
    for (ni, (n, _)) in names.iter().enumerate() {
        let letters = n.bytes().filter(|b| b.is_ascii_alphabetic()).count() as u32;
        let blocks = 1u32 << letters.saturating_sub(8);
        for b in 0..blocks {
            jobs.push((ni, b));
        }
    }
    let t = par_enum(
        jobs.len() as u64,
        workers(),
        120,
        |j, t| {
            let (ni, blk) = jobs[j as usize];
            let (name, value) = names[ni];
            let letters: Vec<usize> = name.bytes().enumerate().filter(|(_, b)| b.is_ascii_alphabetic()).map(|(i, _)| i).collect();
            let low = letters.len().min(8);
            for pat in 0..(1u32 << low) {
                let full = pat | (blk << 8);
                let mut nm = name.as_bytes().to_vec();
                for (bit, &pos) in letters.iter().enumerate() {
                    if full >> bit & 1 == 1 {
                        nm[pos] = nm[pos].to_ascii_uppercase();
                    }
                }
                let mut line = nm.clone();
                line.extend_from_slice(b": ");
                line.extend_from_slice(value.as_bytes());
                let mut h = Headers::default();
                let r = h.parse_header_line(&line);
                let v = sh::view(&h);
                t.evals += 1;
                t.nontrivial += 1;
                let recognised = match ni {
                    0 => r.is_ok() && v.content_length == 5,
                    1 => r.is_ok() && v.custom.is_empty(),
                    2 => r.is_ok() && v.expect,
                    3 => r.is_ok() && v.chunked,
                    4 => r.is_ok() && v.custom.is_empty(),
                    5 => r.is_ok() && v.accept_json,
                    _ => r.is_err() && v.custom.is_empty(),
                };
                if !recognised {
                    t.violate("name-case", format!("header line {:?} is not recognised as {} (result {:?}, headers {:?})", util::show(&line), name, r, v), json!({"engine": "c15block", "block": util::hex(&[&line[..], b"\r\n\r\n"].concat())}));
                }
            }
            if j == 3 {
                t.sample(json!({"name": name, "patterns_in_block": 1u32 << low}));
            }
        },
        |j| format!("case-pattern block {}", j),
    );
    t.record(&mut part, "name-case-patterns");
    // (b') whitespace padding sweep around every recognised name and its value
    let pads: Vec<&str> = vec![" ", "\t", "\u{a0}", "\u{3000}"];
    let t = par_enum(
        (names.len() * 41) as u64,
        workers(),
        120,
        |j, t| {
            let ni = j as usize / 41;
            let lead = j as usize % 41;
            let (name, value) = names[ni];
            for trail in 0..=40usize {
                for (pi, pad) in pads.iter().enumerate() {
                    // vary where the padding goes: before the name / after the name / around the value
                    let line = format!("{}{}{}:{}{}{}", pad.repeat(lead % 7), name, pad.repeat(trail), pads[(pi + 1) % 4].repeat(lead / 7), value, pad.repeat(trail % 5));
                    let mut h = Headers::default();
                    let r = h.parse_header_line(line.as_bytes());
                    let v = sh::view(&h);
                    t.evals += 1;
                    if lead + trail > 0 {
                        t.nontrivial += 1;
                    }
                    let recognised = match ni {
                        0 => r.is_ok() && v.content_length == 5,
                        1 => r.is_ok() && v.custom.is_empty(),
                        2 => r.is_ok() && v.expect,
                        3 => r.is_ok() && v.chunked,
                        4 => r.is_ok() && v.custom.is_empty(),
                        5 => r.is_ok() && v.accept_json,
                        _ => r.is_err() && v.custom.is_empty(),
                    };
                    if !recognised {
                        t.violate("name-padding", format!("header line {:?} (name padded with {} + {} whitespace characters) is not recognised as {} (result {:?}, headers {:?})", line, lead % 7, trail, name, r, v), json!({"engine": "c15block", "block": util::hex(&[line.as_bytes(), b"\r\n\r\n"].concat())}));
                    }
                }
            }
        },
        |j| format!("padding sweep {}", j),
    );
    t.record(&mut part, "name-and-value-padding");
    // every byte value in place of the '-' of the hyphenated names (and of one letter): anything
    // but the exact name is some other field (custom entry if UTF-8, fatal otherwise)
    {
        let mut t = crate::par::Tally::default();
        for (name, value) in [("Content-Length", "7"), ("Content-Type", "text/plain"), ("Transfer-Encoding", "chunked"), ("Accept-Encoding", "identity;q=0"), ("Expect", "100-continue"), ("Accept", "application/json")] {
            for pos in 0..name.len() {
                for b in 0..=255u8 {
                    let mut line = name.as_bytes().to_vec();
                    if line[pos].eq_ignore_ascii_case(&b) {
                        continue;
                    }
                    line[pos] = b;
                    if b == b':' {
                        continue;
                    }
                    line.extend_from_slice(b": ");
                    line.extend_from_slice(value.as_bytes());
                    let mut h = Headers::default();
                    let r = h.parse_header_line(&line);
                    let v = sh::view(&h);
                    let mut s = SpecHeaders::default();
                    let want = s.apply_line(&line);
                    t.evals += 1;
                    t.nontrivial += 1;
                    if want == Verdict::Unjudged {
                        continue;
                    }
                    if !same_class(class_of(&r), want) || (matches!(want, Verdict::Applied | Verdict::Ignored) && v != s) {
                        t.violate("name-byte-substitution", format!("header line {:?}: implementation {:?} with headers {:?}, the rules say {:?} with {:?}", util::show(&line), r, v, want, s), json!({"engine": "c15block", "block": util::hex(&[&line[..], b"\r\n\r\n"].concat())}));
                    }
                }
            }
        }
        t.sample(json!({"substitution": "every byte value at every position of 6 recognised names"}));
        t.record(&mut part, "name-byte-substitutions");
    }
    // (c) blocks
    let n_full = if thorough { 5u32 } else { 3 };
    let a = all.len() as u64;
    let mut total = 0u64;
    for d in 0..=n_full {
        total += a.pow(d);
    }
    let blocksz = 256u64;
    let all2 = all.clone();
    let t = par_enum(
        (total + blocksz - 1) / blocksz,
        workers(),
        300,
        move |blk, t| {
            for idx in blk * blocksz..((blk + 1) * blocksz).min(total) {
                let mut i = idx;
                let mut d = 0;
                while i >= a.pow(d) {
                    i -= a.pow(d);
                    d += 1;
                }
                let mut ls: Vec<&[u8]> = vec![];
                for _ in 0..d {
                    ls.push(&all2[(i % a) as usize]);
                    i /= a;
                }
                block_case(&ls, t);
                if idx == 50_000 {
                    t.sample(json!({"block_lines": ls.iter().map(|l| util::show(l)).collect::<Vec<_>>()}));
                }
            }
        },
        |blk| format!("header block chunk {}", blk),
    );
    t.record(&mut part, "blocks-full-alphabet");
    let sub_idx: Vec<usize> = vec![0, 2, 5, 9, 11, 13, 16, 19, 21, 25, 31, 37];
    let sub: Vec<Vec<u8>> = sub_idx.iter().map(|i| all[*i].clone()).collect();
    let m = if thorough { 7u32 } else { 5 };
    let b = sub.len() as u64;
    let total2 = b.pow(m);
    let t = par_enum(
        (total2 + blocksz - 1) / blocksz,
        workers(),
        300,
        move |blk, t| {
            for idx in blk * blocksz..((blk + 1) * blocksz).min(total2) {
                let mut i = idx;
                let mut ls: Vec<&[u8]> = vec![];
                for _ in 0..m {
                    ls.push(&sub[(i % b) as usize]);
                    i /= b;
                }
                block_case(&ls, t);
            }
        },
        |blk| format!("sub-alphabet block chunk {}", blk),
    );
    t.record(&mut part, "blocks-sub-alphabet");
    // empty line stops block parsing
    {
        let mut t = crate::par::Tally::default();
        for l in &all {
            let mut block = b"X-a: 1\r\n\r\n".to_vec();
            block.extend_from_slice(l);
            block.extend_from_slice(b"\r\n\r\n");
            t.evals += 1;
            match Headers::try_from(&block) {
                Ok(h) => {
                    let v = sh::view(&h);
                    let mut want = SpecHeaders::default();
                    want.custom.insert("X-a".into(), "1".into());
                    if v != want {
                        t.violate("block-after-empty-line", format!("lines after the empty line were applied: {:?}", util::show(&block)), json!({"engine": "none"}));
                    }
                }
                Err(_) if std::str::from_utf8(&block).is_err() => {}
                Err(e) => t.violate("block-after-empty-line", format!("{:?} rejected with {:?} although parsing stops at the empty line", util::show(&block), e), json!({"engine": "none"})),
            }
        }
        t.nontrivial = t.evals;
        t.record(&mut part, "lines-after-empty-line");
    }
    // (d) Accept-Encoding lists
    let items = ["identity", "identity;q=0", "*;q=0", "gzip", "", " "];
    let mut t = crate::par::Tally::default();
    for len in 1..=3u32 {
        for i in 0..6u64.pow(len) {
            let mut x = i;
            let mut parts = vec![];
            for _ in 0..len {
                parts.push(items[(x % 6) as usize]);
                x /= 6;
            }
            let value = parts.join(",");
            t.evals += 1;
            if value.trim().is_empty() {
                continue;
            }
            t.nontrivial += 1;
            let want = sh::accept_encoding_ok(&value).is_ok();
            let got = Encoding::try_from(value.as_bytes()).is_ok();
            if want != got {
                t.violate("accept-encoding", format!("Encoding::try_from({:?}) accepted = {}, the rules say {}", value, got, want), json!({"engine": "none"}));
            }
            // and in header context (value trimmed first)
            let line = format!("Accept-Encoding: {}", value);
            let want_line = sh::accept_encoding_ok(sh::strip(&value)).is_ok();
            let got_line = Headers::default().parse_header_line(line.as_bytes()).is_ok();
            if want_line != got_line {
                t.violate("accept-encoding", format!("header line {:?} accepted = {}, the rules say {}", line, got_line, want_line), json!({"engine": "none"}));
            }
        }
    }
    t.sample(json!({"accept_encoding_items": items}));
    t.record(&mut part, "accept-encoding-lists");
    part.set("rule", json!("enumerations are over distinct inputs by construction; non-trivial = block of >= 2 lines / name-case pattern / non-blank encoding list"));
    vec![part]
}
