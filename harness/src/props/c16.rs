//! C16 — token and URI functions are exact, case-sensitive and round-trip.
use crate::par::par_enum;
use crate::props::small_build;
use crate::util::{self, workers, Part};
use micro_http::{MediaType, Method, Request, StatusCode, Version};
use serde_json::json;

/// Reference: the absolute path of a URI.
pub fn abs_path(uri: &str) -> &str {
    if uri.starts_with('/') {
        return uri;
    }
    if let Some(rest) = uri.strip_prefix("http://") {
        return match rest.find('/') {
            Some(i) => &rest[i..],
            None => "",
        };
    }
    ""
}

fn token_verdict(input: &[u8]) -> (Option<u8>, Option<u8>, Option<u8>) {
    let m = match input {
        b"GET" => Some(0),
        b"PUT" => Some(1),
        b"PATCH" => Some(2),
        _ => None,
    };
    let v = match input {
        b"HTTP/1.0" => Some(0),
        b"HTTP/1.1" => Some(1),
        _ => None,
    };
    // media types: canonical spelling modulo surrounding whitespace
    let mt = std::str::from_utf8(input).ok().and_then(|s| match crate::spec::headers::strip(s) {
        "text/plain" => Some(0),
        "application/json" => Some(1),
        _ => None,
    });
    let mt = if input.is_empty() { None } else { mt };
    (m, v, mt)
}

fn check_token(input: &[u8], t: &mut crate::par::Tally) {
    let (wm, wv, wmt) = token_verdict(input);
    t.evals += 1;
    let gm = Method::try_from(input).ok().map(|m| match m {
        Method::Get => 0u8,
        Method::Put => 1,
        Method::Patch => 2,
    });
    let gv = Version::try_from(input).ok().map(|v| match v {
        Version::Http10 => 0u8,
        Version::Http11 => 1,
    });
    let gmt = MediaType::try_from(input).ok().map(|m| match m {
        MediaType::PlainText => 0u8,
        MediaType::ApplicationJson => 1,
    });
    if wm.is_some() || wv.is_some() || wmt.is_some() {
        t.nontrivial += 1;
    }
    if gm != wm {
        t.violate("method-token", format!("Method::try_from({:?}) = {:?}, expected {:?}", util::show(input), gm, wm), json!({"engine": "c16tok", "input": util::hex(input)}));
    }
    if gv != wv {
        t.violate("version-token", format!("Version::try_from({:?}) = {:?}, expected {:?}", util::show(input), gv, wv), json!({"engine": "c16tok", "input": util::hex(input)}));
    }
    if gmt != wmt {
        t.violate("media-type-token", format!("MediaType::try_from({:?}) = {:?}, expected {:?}", util::show(input), gmt, wmt), json!({"engine": "c16tok", "input": util::hex(input)}));
    }
}

fn check_uri(uri: &[u8], t: &mut crate::par::Tally) {
    let mut req = b"GET ".to_vec();
    req.extend_from_slice(uri);
    req.extend_from_slice(b" HTTP/1.1\r\n\r\n");
    t.evals += 1;
    let r = match Request::try_from(&req, None) {
        Ok(r) => r,
        Err(e) => {
            t.violate("uri-rejected", format!("request with URI {:?} rejected: {:?}", util::show(uri), e), json!({"engine": "c16uri", "uri": util::hex(uri)}));
            return;
        }
    };
    let text = std::str::from_utf8(uri).unwrap();
    let got = r.uri().get_abs_path();
    let want = abs_path(text);
    if !want.is_empty() {
        t.nontrivial += 1;
    }
    if got != want {
        t.violate("abs-path", format!("get_abs_path({:?}) = {:?}, expected {:?}", text, got, want), json!({"engine": "c16uri", "uri": util::hex(uri)}));
    } else if !(got.is_empty() || (got.starts_with('/') && text.ends_with(got))) {
        t.violate("abs-path-shape", format!("get_abs_path({:?}) = {:?} is neither empty nor a /-prefixed suffix", text, got), json!({"engine": "c16uri", "uri": util::hex(uri)}));
    }
    // the function is exact for every call, not only the first one on a fresh value: asked again
    // (same value, then a clone, then a separately constructed Uri of the same text)
    let again: Vec<String> = vec![r.uri().get_abs_path().to_string(), r.uri().get_abs_path().to_string(), r.uri().clone().get_abs_path().to_string(), micro_http::Request::try_from(&req, None).map(|q| { let _ = q.uri().get_abs_path(); q.uri().get_abs_path().to_string() }).unwrap_or_default()];
    if let Some(i) = again.iter().position(|g| g != want) {
        t.violate("abs-path-repeated-call", format!("get_abs_path({:?}) asked again (call #{}) = {:?}, expected {:?}", text, i + 2, again[i], want), json!({"engine": "c16uri", "uri": util::hex(uri)}));
    }
}

pub fn replay(v: &serde_json::Value) -> (bool, serde_json::Value) {
    let mut t = crate::par::Tally::default();
    if v["engine"] == "c16uri" {
        check_uri(&util::unhex(v["uri"].as_str().unwrap()), &mut t);
    } else {
        check_token(&util::unhex(v["input"].as_str().unwrap()), &mut t);
    }
    (!t.violations.is_empty(), json!({"violations": t.violations.iter().map(|v| v.detail.clone()).collect::<Vec<_>>()}))
}

pub fn run(thorough: bool) -> Vec<Part> {
    if small_build() {
        return vec![];
    }
    let mut part = Part::new("C16", "tokens-uris-r", "exploration");
    part.assume("tokens: all byte strings of length <= 5 over the letters of GET/PUT/PATCH in both cases, SP, NUL and 0xE9; all single-byte replacements (256 values), deletions and insertions on every canonical token (3 methods, 2 versions, 2 media types, each also padded with SP/HTAB); round trip parse(raw(v)) == v; the 11 status codes are pairwise distinct three-digit numbers equal to the documented ones. URIs: all strings of length <= N (N = 8 quick, 9 thorough) over {h,t,p,:,/,a,.,%,U+00E9} through Request::try_from(..).uri().get_abs_path() against a reference and the 'empty or /-prefixed suffix' shape");
    // (1) short strings over the token alphabet
    let mut alpha: Vec<u8> = b"GETPUACHgetpuach".to_vec();
    alpha.extend_from_slice(&[b' ', 0x00, 0xe9]);
    alpha.sort();
    alpha.dedup();
    let a = alpha.len() as u64;
    let maxlen = 5u32;
    let blocks = a * a; // first two symbols
    let al = alpha.clone();
    let t = par_enum(
        blocks,
        workers(),
        120,
        move |blk, t| {
            let h = [al[(blk % a) as usize], al[(blk / a) as usize]];
            if blk == 0 {
                check_token(&[], t);
                for x in &al {
                    check_token(&[*x], t);
                }
            }
            for len in 0..=(maxlen - 2) {
                for i in 0..a.pow(len) {
                    let mut s = h.to_vec();
                    let mut x = i;
                    for _ in 0..len {
                        s.push(al[(x % a) as usize]);
                        x /= a;
                    }
                    check_token(&s, t);
                }
            }
        },
        |blk| format!("token strings block {}", blk),
    );
    t.record(&mut part, "token-strings");
    // (2) single-byte edits of every canonical token (+ padded variants)
    let mut canon: Vec<Vec<u8>> = vec![b"GET".to_vec(), b"PUT".to_vec(), b"PATCH".to_vec(), b"HTTP/1.0".to_vec(), b"HTTP/1.1".to_vec(), b"text/plain".to_vec(), b"application/json".to_vec()];
    for base in [&b"text/plain"[..], &b"application/json"[..], &b"GET"[..], &b"HTTP/1.1"[..]] {
        for (pre, post) in [(" ", ""), ("", " "), ("\t", "\t "), ("  ", "  ")] {
            let mut v = pre.as_bytes().to_vec();
            v.extend_from_slice(base);
            v.extend_from_slice(post.as_bytes());
            canon.push(v);
        }
    }
    let canon2 = canon.clone();
    let t2 = par_enum(
        canon.len() as u64,
        workers().min(canon.len()),
        120,
        move |i, t| {
            let c = &canon2[i as usize];
            check_token(c, t);
            for pos in 0..=c.len() {
                for b in 0..=255u8 {
                    let mut ins = c.clone();
                    ins.insert(pos, b);
                    check_token(&ins, t);
                    if pos < c.len() {
                        let mut rep = c.clone();
                        rep[pos] = b;
                        check_token(&rep, t);
                    }
                }
                if pos < c.len() {
                    let mut del = c.clone();
                    del.remove(pos);
                    check_token(&del, t);
                }
            }
            if i == 2 {
                t.sample(json!({"canonical_token": util::show(c), "edits": "every replacement/insertion of all 256 byte values at every position, every deletion"}));
            }
        },
        |i| format!("edits of canonical token {}", i),
    );
    t2.record(&mut part, "token-edits");
    // (3) round trips and status codes
    let mut rt = 0u64;
    for m in [Method::Get, Method::Put, Method::Patch] {
        rt += 1;
        if Method::try_from(m.raw()).ok() != Some(m) || m.to_str().as_bytes() != m.raw() {
            part.violations.push(util::Violation { signature: "round-trip".into(), detail: format!("Method {:?} does not round-trip", m), replay: json!({"engine": "none"}) });
        }
    }
    for v in [Version::Http10, Version::Http11] {
        rt += 1;
        if Version::try_from(v.raw()).ok() != Some(v) {
            part.violations.push(util::Violation { signature: "round-trip".into(), detail: format!("Version {:?} does not round-trip", v), replay: json!({"engine": "none"}) });
        }
    }
    for m in [MediaType::PlainText, MediaType::ApplicationJson] {
        rt += 1;
        if MediaType::try_from(m.as_str().as_bytes()).ok() != Some(m) {
            part.violations.push(util::Violation { signature: "round-trip".into(), detail: format!("MediaType {:?} does not round-trip", m), replay: json!({"engine": "none"}) });
        }
    }
    let codes: Vec<(StatusCode, &[u8; 3])> = vec![
        (StatusCode::Continue, b"100"), (StatusCode::OK, b"200"), (StatusCode::NoContent, b"204"), (StatusCode::BadRequest, b"400"),
        (StatusCode::Unauthorized, b"401"), (StatusCode::NotFound, b"404"), (StatusCode::MethodNotAllowed, b"405"), (StatusCode::PayloadTooLarge, b"413"),
        (StatusCode::InternalServerError, b"500"), (StatusCode::NotImplemented, b"501"), (StatusCode::ServiceUnavailable, b"503"),
    ];
    let mut seen = std::collections::BTreeSet::new();
    for (c, want) in &codes {
        rt += 1;
        if c.raw() != *want || !seen.insert(c.raw().to_vec()) {
            part.violations.push(util::Violation { signature: "status-code".into(), detail: format!("{:?}.raw() = {:?}, expected {:?} (and distinct)", c, util::show(c.raw()), util::show(*want)), replay: json!({"engine": "none"}) });
        }
    }
    // every status code, serialized through a Response under both versions
    {
        use crate::spec::response::{read_one, ReadResult};
        let mut seen_lines = std::collections::BTreeSet::new();
        for v in [Version::Http10, Version::Http11] {
            for (c, want) in &codes {
                rt += 1;
                let mut b = vec![];
                micro_http::Response::new(v, *c).write_all(&mut b).unwrap();
                let want_code: u16 = std::str::from_utf8(*want).unwrap().parse().unwrap();
                match read_one(&b) {
                    ReadResult::Complete(p) if p.code == want_code && p.version.as_bytes() == v.raw() => {
                        seen_lines.insert((p.version.clone(), p.code));
                    }
                    other => part.violations.push(util::Violation { signature: "status-code".into(), detail: format!("Response::new({:?}, {:?}) serializes as {:?}, expected code {}", v, c, other, want_code), replay: json!({"engine": "none"}) }),
                }
            }
        }
        if part.violations.is_empty() && seen_lines.len() != 22 {
            part.violations.push(util::Violation { signature: "status-code".into(), detail: "serialized status lines are not pairwise distinct".into(), replay: json!({"engine": "none"}) });
        }
    }
    part.set("round_trip_and_status_checks", json!(rt));
    // (4) URIs
    let syms: Vec<&str> = vec!["h", "t", "p", ":", "/", "a", ".", "%", "\u{e9}"];
    let n = if thorough { 9u32 } else { 8 };
    let k = syms.len() as u64;
    let blocks = k.pow(3);
    let syms2 = syms.clone();
    let t3 = par_enum(
        blocks,
        workers(),
        600,
        move |blk, t| {
            let head: Vec<&str> = vec![syms2[(blk % k) as usize], syms2[(blk / k % k) as usize], syms2[(blk / k / k) as usize]];
            if blk == 0 {
                for x in &syms2 {
                    check_uri(x.as_bytes(), t);
                    for y in &syms2 {
                        check_uri(format!("{}{}", x, y).as_bytes(), t);
                    }
                }
            }
            // the interesting prefix "http://" needs 7 symbols; make sure those blocks go deep
            let mut buf = String::new();
            for len in 0..=(n - 3) {
                for i in 0..k.pow(len) {
                    buf.clear();
                    for h in &head {
                        buf.push_str(h);
                    }
                    let mut x = i;
                    for _ in 0..len {
                        buf.push_str(syms2[(x % k) as usize]);
                        x /= k;
                    }
                    check_uri(buf.as_bytes(), t);
                }
            }
            if blk == 4 + 4 * k + 5 * k * k {
                t.sample(json!({"uri_block": "all URIs starting with //a up to the length bound"}));
            }
        },
        |blk| format!("URI block {}", blk),
    );
    t3.record(&mut part, "uris");
    // http:// prefixed URIs beyond the length bound: "http://" + all strings of length <= n-3
    let syms3 = syms.clone();
    let t4 = par_enum(
        k * k,
        workers(),
        600,
        move |blk, t| {
            let mut buf = String::new();
            for len in 0..=(n - 4) {
                for i in 0..k.pow(len) {
                    buf.clear();
                    buf.push_str("http://");
                    buf.push_str(syms3[(blk % k) as usize]);
                    buf.push_str(syms3[(blk / k) as usize]);
                    let mut x = i;
                    for _ in 0..len {
                        buf.push_str(syms3[(x % k) as usize]);
                        x /= k;
                    }
                    check_uri(buf.as_bytes(), t);
                }
            }
        },
        |blk| format!("http:// URI block {}", blk),
    );
    t4.record(&mut part, "absolute-uris");
    // token-level URIs: sequences of up to 5 (thorough 6) tokens, reaching shapes such as
    // http://http://a/b that the character-level bound does not
    let toks: Vec<&str> = vec!["http://", "http:/", "http:", "/", "//", "a", ":", "\u{e9}", ".", "HTTP://", "b/c"];
    let tk = toks.len() as u64;
    let maxt = if thorough { 6u32 } else { 5 };
    let toks2 = toks.clone();
    let t5 = par_enum(
        tk * tk,
        workers(),
        600,
        move |blk, t| {
            let mut buf = String::new();
            for len in 0..=(maxt - 2) {
                for i in 0..tk.pow(len) {
                    buf.clear();
                    buf.push_str(toks2[(blk % tk) as usize]);
                    buf.push_str(toks2[(blk / tk) as usize]);
                    let mut x = i;
                    for _ in 0..len {
                        buf.push_str(toks2[(x % tk) as usize]);
                        x /= tk;
                    }
                    check_uri(buf.as_bytes(), t);
                }
            }
            if blk == 0 {
                t.sample(json!({"token_uri_block": "all token sequences starting with http://http://"}));
            }
        },
        |blk| format!("token URI block {}", blk),
    );
    t5.record(&mut part, "token-level-uris");
    // very long URIs (offsets beyond 16 bits)
    {
        let mut t6 = crate::par::Tally::default();
        for n in [1000usize, 65520, 65529, 65530, 65535, 65536, 65537, 70000, 131072, 200000] {
            check_uri(format!("http://{}/index", "a".repeat(n)).as_bytes(), &mut t6);
            check_uri(format!("http://{}", "a".repeat(n)).as_bytes(), &mut t6);
            check_uri(format!("/{}", "p".repeat(n)).as_bytes(), &mut t6);
            check_uri(format!("{}://x/y", "s".repeat(n)).as_bytes(), &mut t6);
        }
        t6.sample(json!({"giant_uris": "authority / path lengths 1000 .. 200000"}));
        t6.record(&mut part, "giant-uris");
    }
    part.set("rule", json!("all strings up to the bound over the stated alphabets, distinct by construction; non-trivial = the reference does not return the default answer (token accepted / abs path non-empty)"));
    part.set("exhaustive", json!(true));
    vec![part]
}
