//! Per-property configurations: alphabets, bounds and oracle wiring.
pub mod alphabet;
pub mod c01;

use crate::util::Part;

pub fn small_build() -> bool {
    crate::connx::buffer_size() == 32
}

/// Runs the parts of `property` that belong to this build flavour.
pub fn run(property: &str, thorough: bool) -> Option<Vec<Part>> {
    match property {
        "C01" => Some(c01::run(thorough)),
        _ => None,
    }
}
