//! Per-property configurations: alphabets, bounds and oracle wiring.
pub mod alphabet;
pub mod c01;
pub mod c02;
pub mod c03;
pub mod c04;
pub mod c05;
pub mod c06;
pub mod c11;
pub mod c12;
pub mod c13;
pub mod c14;
pub mod c15;
pub mod c16;
pub mod c17;
pub mod gen;
pub mod srv;

use crate::util::Part;

pub fn small_build() -> bool {
    crate::connx::buffer_size() == 32
}

/// Runs the parts of `property` that belong to this build flavour.
pub fn run(property: &str, thorough: bool) -> Option<Vec<Part>> {
    match property {
        "C01" => Some(c01::run(thorough)),
        "C07" => Some(srv::c07(thorough)),
        "C08" => Some(srv::c08(thorough)),
        "C09" => Some(srv::c09(thorough)),
        "C10" => Some(srv::c10(thorough)),
        "C18" => Some(srv::c18(thorough)),
        "C02" => Some(c02::run(thorough)),
        "C03" => Some(c03::run(thorough)),
        "C04" => Some(c04::run(thorough)),
        "C05" => Some(c05::run(thorough)),
        "C06" => Some(c06::run(thorough)),
        "C11" => Some(c11::run(thorough)),
        "C12" => Some(c12::run(thorough)),
        "C13" => Some(c13::run(thorough)),
        "C14" => Some(c14::run(thorough)),
        "C15" => Some(c15::run(thorough)),
        "C16" => Some(c16::run(thorough)),
        "C17" => Some(c17::run(thorough)),
        _ => None,
    }
}
