//! C03 — no input makes any parsing entry point panic, hang or block.
use crate::connx::{self, Cfg};
use crate::explore::{bfs, record, Limits};
use crate::par::par_enum;
use crate::props::{alphabet, small_build};
use crate::util::{self, workers, Part};
use micro_http::{Encoding, Headers, MediaType, Method, Request, Version};
use serde_json::json;

const SYMS: [u8; 11] = [b'G', b':', b' ', b'\r', b'\n', b'0', 0xff, 0x00, b'/', 0xc3, 0xa9];
const K: u64 = 11;

fn entry_points(input: &[u8], t: &mut crate::par::Tally, ctx: &str) {
    let n = input.len();
    let mut check = |name: &str, r: Result<u8, String>| {
        t.evals += 1;
        match r {
            Ok(c) => t.outcome(util::hash64(&[name.as_bytes(), &[c]]) % 4096),
            Err(p) => t.violate(
                "panic",
                format!("{} panicked on input {:?} (context {}): {}", name, util::show(input), ctx, p),
                json!({"engine": "entry", "entry": name, "input": util::hex(input)}),
            ),
        }
    };
    for (mi, max) in [None, Some(n.saturating_sub(1)), Some(n), Some(n + 1)].into_iter().enumerate() {
        check(
            &format!("Request::try_from[max#{}]", mi),
            util::catch(|| match Request::try_from(input, max) {
                Ok(r) => {
                    // exercise the accessors, including URI path extraction
                    let p = r.uri().get_abs_path();
                    let _ = (r.method(), r.http_version(), r.headers.content_length(), r.body.as_ref().map(|b| b.len()));
                    if p.is_empty() {
                        1
                    } else {
                        2
                    }
                }
                Err(_) => 0,
            }),
        );
    }
    check("Headers::try_from", util::catch(|| Headers::try_from(input).is_ok() as u8));
    check("Headers::parse_header_line", util::catch(|| Headers::default().parse_header_line(input).is_ok() as u8));
    check("MediaType::try_from", util::catch(|| MediaType::try_from(input).is_ok() as u8));
    check("Encoding::try_from", util::catch(|| Encoding::try_from(input).is_ok() as u8));
    check("Method::try_from", util::catch(|| Method::try_from(input).is_ok() as u8));
    check("Version::try_from", util::catch(|| Version::try_from(input).is_ok() as u8));
}

pub fn replay_entry(v: &serde_json::Value) -> (bool, serde_json::Value) {
    let input = util::unhex(v["input"].as_str().unwrap());
    let mut t = crate::par::Tally::default();
    entry_points(&input, &mut t, "replay");
    (!t.violations.is_empty(), json!({"violations": t.violations.iter().map(|v| v.detail.clone()).collect::<Vec<_>>()}))
}

pub fn run(thorough: bool) -> Vec<Part> {
    if small_build() {
        let mut part = Part::new("C03", "robust-alphabet-s", "exploration");
        part.assume("S-build: the connection state machine under every read schedule over the piece alphabet, continuing after ParseError, StreamReadError (EAGAIN/EINTR) and ConnectionClosed (EOF followed by more data); oracles: no panic (overflow checks on), at most one receive per try_read and one write per try_write, output is a sequence of well-formed responses; a watchdog turns a hang into a finding");
        let mut pieces = alphabet::small(if thorough { 1 } else { 0 });
        {
            // header / request lines longer than the buffer that contain invalid UTF-8 at
            // various positions (error paths that render the offending bytes)
            let b = connx::buffer_size();
            let mk = |prefix: &[u8], bad_from: usize, bad_to: usize, total: usize| -> Vec<u8> {
                let mut v = prefix.to_vec();
                while v.len() < total - 2 {
                    let i = v.len();
                    v.push(if i >= bad_from && i < bad_to { 0xff } else { b'a' });
                }
                v.extend_from_slice(b"\r\n");
                v
            };
            pieces.push(connx::piece("h_long_bad_tail", connx::Class::Header, &mk(b"X-a: ", b - 2, b, b + 4)));
            pieces.push(connx::piece("h_long_bad_tail1", connx::Class::Header, &mk(b"X-a: ", b - 1, b, b + 4)));
            pieces.push(connx::piece("h_long_bad_all", connx::Class::Header, &mk(b"X-a: ", 5, b + 2, b + 4)));
            pieces.push(connx::piece("rl_long_bad_tail", connx::Class::ReqLine, &mk(b"GET /", b - 2, b, b + 4)));
            // header lines whose value is empty or blank (each recognised header has its own arm)
            pieces.push(connx::piece("h_ae_empty", connx::Class::Header, b"Accept-Encoding:\r\n"));
            pieces.push(connx::piece("h_cl_blank", connx::Class::Header, b"Content-Length: \r\n"));
        }
        let mut cfg = Cfg::base("C03", "robust-alphabet", pieces, 40);
        cfg.robust_only = true;
        cfg.eof = true;
        cfg.empty_reads = true;
        let limits = Limits { max_states: if thorough { 4_000_000 } else { 600_000 }, max_secs: if thorough { 1500.0 } else { 40.0 }, ..Default::default() };
        let st = bfs(&cfg, &limits, workers());
        record(&mut part, "robust-alphabet", &st);
        for (v, _) in &st.violations {
            part.violations.push(v.clone());
        }
        part.set("rule", json!("graph exploration of the connection under robustness oracles; non-trivial = state with a partial element buffered, a body in progress or reached after an error"));
        return vec![part];
    }
    let mut part = Part::new("C03", "entry-points-r", "exploration");
    part.assume("every byte string of length <= N over {G : SP CR LF 0 0xFF 0x00 / 0xC3 0xA9} (the last two form a valid two-byte UTF-8 character when adjacent; N = 6 quick, 7 thorough), alone and appended to the contexts `GET / HTTP/1.1\\r\\n`, `GET / HTTP/1.1\\r\\nContent-Length: 1`, `GET http://` (+ ` HTTP/1.1\\r\\n\\r\\n`), through Request::try_from (max_len None / len-1 / len / len+1, plus accessors and get_abs_path), Headers::try_from, Headers::parse_header_line, MediaType/Encoding/Method/Version::try_from; every call under catch_unwind in a build with overflow checks and debug assertions; a 120 s watchdog per block detects hangs; aborts are attributed to the input");
    let n = if thorough { 7 } else { 6 };
    // blocks: the first 3 symbols; inner loop: the remaining <= n-3 symbols (all shorter lengths too)
    let blocks = K.pow(3);
    let contexts: Vec<(&str, Vec<u8>, Vec<u8>)> = vec![
        ("bare", vec![], vec![]),
        ("after request line", b"GET / HTTP/1.1\r\n".to_vec(), vec![]),
        ("directly behind the request line text", b"GET / HTTP/1.1".to_vec(), vec![]),
        ("after Content-Length: 1", b"GET / HTTP/1.1\r\nContent-Length: 1".to_vec(), vec![]),
        ("inside absolute URI", b"GET http://".to_vec(), b" HTTP/1.1\r\n\r\n".to_vec()),
    ];
    let t = par_enum(
        blocks,
        workers(),
        90,
        |blk, t| {
            let head = [SYMS[(blk % K) as usize], SYMS[(blk / K % K) as usize], SYMS[(blk / K / K % K) as usize]];
            // strings shorter than 3 symbols are covered once, by block 0
            let mut inputs: Vec<Vec<u8>> = vec![];
            if blk == 0 {
                inputs.push(vec![]);
                for a in SYMS {
                    inputs.push(vec![a]);
                    for b in SYMS {
                        inputs.push(vec![a, b]);
                    }
                }
            }
            let rest = n - 3;
            for len in 0..=rest {
                let count = K.pow(len as u32);
                for i in 0..count {
                    let mut s = head.to_vec();
                    let mut x = i;
                    for _ in 0..len {
                        s.push(SYMS[(x % K) as usize]);
                        x /= K;
                    }
                    inputs.push(s);
                }
            }
            for s in inputs {
                let nontrivial = s.contains(&b'\r') || s.contains(&b'\n') || s.contains(&b':');
                if nontrivial {
                    t.nontrivial += 1;
                }
                t.count("strings");
                for (name, pre, post) in &contexts {
                    let mut input = pre.clone();
                    input.extend_from_slice(&s);
                    input.extend_from_slice(post);
                    entry_points(&input, t, name);
                }
                if blk == 137 && s.len() == 5 && t.samples.is_empty() {
                    t.sample(json!({"string": util::show(&s), "contexts": contexts.iter().map(|c| c.0).collect::<Vec<_>>()}));
                }
            }
        },
        |blk| format!("all strings starting with symbols #{} #{} #{}", blk % K, blk / K % K, blk / K / K % K),
    );
    t.record(&mut part, "entry-point-strings");
    // numeric and length edge values through every entry point (values, header lines, blocks, requests)
    {
        let vals: Vec<String> = vec![
            "4294967295", "4294967296", "4294967297", "9999999999", "10000000000", "18446744073709551615", "18446744073709551616",
            "99999999999999999999999999999999", "00000000000000000000004294967296", "0000000000", "-0", "-1", "+0", "+4294967296", " 4294967296 ", "1e3", "0x10", "",
        ].into_iter().map(|s| s.to_string()).collect();
        let names = ["Content-Length", "content-length", "Expect", "Accept", "Content-Type", "Transfer-Encoding", "Accept-Encoding", "Server", "X-n"];
        let mut t = crate::par::Tally::default();
        for v in &vals {
            for n in names {
                let line = format!("{}: {}", n, v);
                entry_points(line.as_bytes(), &mut t, "edge value as header line");
                entry_points(format!("{}\r\n\r\n", line).as_bytes(), &mut t, "edge value as header block");
                entry_points(format!("PUT /e HTTP/1.1\r\n{}\r\n\r\n", line).as_bytes(), &mut t, "edge value in a request");
                entry_points(format!("PUT /e HTTP/1.1\r\nContent-Length: 1\r\n{}\r\n\r\nb", line).as_bytes(), &mut t, "edge value after a valid Content-Length");
                t.nontrivial += 1;
            }
            entry_points(v.as_bytes(), &mut t, "edge value alone");
        }
        t.sample(json!({"edge_values": vals}));
        t.record(&mut part, "numeric-edge-values");
    }
    // URIs with a multi-byte character starting at every byte offset 0..40 (2-, 3- and 4-byte
    // characters), in origin form and behind http:// / HTTP:// / an authority, 0..3 bytes after it
    {
        let mut t = crate::par::Tally::default();
        for ch in ["\u{e9}", "\u{20ac}", "\u{1f600}"] {
            for k in 0..=40usize {
                for j in 0..=3usize {
                    for pre in ["/", "", "http://", "HTTP://", "http://h/", "hTtp:/"] {
                        let uri = format!("{}{}{}{}", pre, "a".repeat(k), ch, "b".repeat(j));
                        let input = format!("GET {} HTTP/1.1\r\n\r\n", uri).into_bytes();
                        entry_points(&input, &mut t, "URI with a multi-byte character at every offset");
                    }
                }
            }
        }
        t.record(&mut part, "uri-multibyte-offsets");
    }
    // large inputs through the connection (real buffer)
    let mut bad_line = b"GET / HTTP/1.1\r\nX-a: ".to_vec();
    while bad_line.len() < 16 + 1100 {
        let i = bad_line.len() - 16;
        bad_line.push(if i == 1022 || i == 1023 || i % 97 == 5 { 0xff } else { b'h' });
    }
    bad_line.extend_from_slice(b"\r\n\r\n");
    let mut bad_line2 = b"GET / HTTP/1.1\r\n".to_vec();
    bad_line2.extend(std::iter::repeat(0xf0u8).take(1500));
    let mut tiny1 = b"GET / HTTP/1.1\r\n".to_vec();
    tiny1.extend_from_slice(&b":\r\n".repeat(330));
    tiny1.extend_from_slice(b"\r\n");
    let mut tiny2 = b"GET / HTTP/1.1\r\n".to_vec();
    tiny2.extend_from_slice(&b":\r\n".repeat(8));
    tiny2.extend_from_slice(&b"a:\r\n".repeat(250));
    tiny2.extend_from_slice(b"\r\n");
    let big: Vec<(&str, Vec<u8>, usize)> = vec![
        ("330 three-byte header lines", tiny1, 51200),
        ("8 three-byte + 250 four-byte header lines", tiny2, 51200),
        ("Content-Length 3000000000 under an unlimited payload limit", b"PUT /b HTTP/1.1\r\nContent-Length: 3000000000\r\n\r\nxyz".to_vec(), usize::MAX),
        ("header line longer than the buffer with invalid UTF-8 near offset 1023", bad_line, 51200),
        ("header line of 1500 bytes 0xF0", bad_line2, 51200),
        ("60 KiB without CRLF", vec![b'x'; 60 * 1024], 51200),
        ("60 KiB body", {
            let mut v = b"PUT /b HTTP/1.1\r\nContent-Length: 61440\r\n\r\n".to_vec();
            v.extend(std::iter::repeat(b'b').take(61440));
            v.extend_from_slice(b"GET /t HTTP/1.1\r\n\r\n");
            v
        }, 65536),
        ("Content-Length 4294967295 with limit 2^32-1, 64 KiB supplied", {
            let mut v = b"PUT /b HTTP/1.1\r\nContent-Length: 4294967295\r\n\r\n".to_vec();
            v.extend(std::iter::repeat(b'b').take(65536));
            v
        }, u32::MAX as usize),
        ("pipelined bodies of 5000, 2000, 1500, 3000, 1100, 40 and 1025 bytes on one connection", {
            let mut v = vec![];
            for (i, n) in [5000usize, 2000, 1500, 3000, 1100, 40, 1025].iter().enumerate() {
                v.extend_from_slice(format!("PUT /b{} HTTP/1.1\r\nContent-Length: {}\r\n\r\n", i, n).as_bytes());
                v.extend(std::iter::repeat(b'a' + i as u8).take(*n));
            }
            v
        }, 51200),
        ("1000 pipelined requests", {
            let mut v = vec![];
            for i in 0..1000 {
                v.extend_from_slice(format!("GET /{} HTTP/1.1\r\n\r\n", i).as_bytes());
            }
            v
        }, 51200),
        ("60 KiB of CRLF", b"\r\n".repeat(30 * 1024), 51200),
        ("60 KiB of header lines", {
            let mut v = b"GET / HTTP/1.1\r\n".to_vec();
            for i in 0..3000 {
                v.extend_from_slice(format!("X-{}: {}\r\n", i, i).as_bytes());
            }
            v
        }, 51200),
    ];
    let t2 = par_enum(
        big.len() as u64,
        workers().min(big.len()),
        300,
        |i, t| {
            let (name, s, limit) = &big[i as usize];
            let mut cfg = Cfg::base("C03", name, vec![], *limit);
            cfg.stream = Some(s.clone());
            cfg.robust_only = true;
            cfg.empty_reads = false;
            let len = s.len();
            let mut scheds: Vec<Vec<usize>> = vec![vec![len], vec![1000; len / 1000 + 1], vec![7; (len / 7 + 1).min(20000)]];
            for c in [1usize, 2, 15, 16, 17, 1023, 1024, 1025, 1038, 1039, 1040, 1041, 2048, len / 2, len - 1] {
                if c > 0 && c < len {
                    scheds.push(vec![c, len - c]);
                }
            }
            for segs in scheds {
                let (v, obs, _n, acts) = connx::run_segments(&cfg, &segs, true);
                t.evals += 1;
                t.nontrivial += 1;
                t.outcome(obs % 4096);
                if let Some((sig, detail)) = v {
                    t.violate(&sig, format!("[{}] {}", name, detail), connx::schedule_replay(&cfg, &acts[..acts.len().min(200)]));
                }
            }
            t.sample(json!({"large_input": name, "bytes": len}));
        },
        |i| format!("large input #{}", i),
    );
    t2.record(&mut part, "large-inputs");
    // the connection under EVERY read schedule of short pipelined streams with bodies (real
    // buffer: one read can complete a request and leave the next one in mid-body)
    for (name, stream) in [
        ("get + put(6) + get", &b"GET /a HTTP/1.1\r\n\r\nPUT /b HTTP/1.1\r\nContent-Length: 6\r\n\r\nabcdefGET /c HTTP/1.0\r\n\r\n"[..]),
        ("put(3) + put(2) + garbage", &b"PUT /b HTTP/1.1\r\nContent-Length: 3\r\n\r\nabcPATCH /c HTTP/1.1\r\nExpect: 100-continue\r\nContent-Length: 2\r\n\r\nxyBAD\r\n\r\n"[..]),
    ] {
        let mut cfg = Cfg::base("C03", name, vec![], 51200);
        cfg.stream = Some(stream.to_vec());
        cfg.robust_only = true;
        cfg.empty_reads = true;
        cfg.eof = false;
        let st = bfs(&cfg, &Limits { max_states: 2_000_000, max_secs: 120.0, ..Default::default() }, workers());
        part.add("stream_graph_states", st.states);
        part.add("stream_graph_transitions", st.transitions);
        part.add("evaluations", st.transitions);
        for (v, _) in &st.violations {
            part.violations.push(v.clone());
        }
        for e in &st.machinery_errors {
            part.machinery_errors.push(e.clone());
        }
    }
    // write side: at most one write per try_write, whatever the stream answers (incl. EINTR)
    {
        let cfg = crate::connw::WCfg { label: "write path: one write per try_write under every stream answer".into(), bodies: vec![5], max_enqueues: 2, all_lengths: false, bodyless_variants: false, max_reads: 0 };
        let st = bfs(&cfg, &Limits::default(), workers());
        part.add("write_path_states", st.states);
        part.add("write_path_transitions", st.transitions);
        part.add("evaluations", st.transitions);
        for (v, _) in &st.violations {
            part.violations.push(v.clone());
        }
        for e in &st.machinery_errors {
            part.machinery_errors.push(e.clone());
        }
    }
    part.set("rule", json!("all strings up to the length bound over the 11-symbol adversarial alphabet x 5 contexts x 10 entry points; distinct by construction; non-trivial = the string contains CR, LF or ':'"));
    part.set("exhaustive", json!(true));
    vec![part]
}
