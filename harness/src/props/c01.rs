//! C01 — delivered requests depend only on the byte stream, not on how reads split it.
use crate::connx::Cfg;
use crate::explore::{bfs, record, Limits};
use crate::props::{alphabet, small_build};
use crate::util::{workers, Part};
use serde_json::json;

pub fn request(method: &str, uri: &str, headers: &[(&str, &str)], body: &[u8]) -> Vec<u8> {
    let mut v = format!("{} {} HTTP/1.1\r\n", method, uri).into_bytes();
    for (k, val) in headers {
        v.extend_from_slice(format!("{}: {}\r\n", k, val).as_bytes());
    }
    if !body.is_empty() {
        v.extend_from_slice(format!("Content-Length: {}\r\n", body.len()).as_bytes());
    }
    v.extend_from_slice(b"\r\n");
    v.extend_from_slice(body);
    v
}

fn filler_header(total_with_crlf: usize) -> Vec<u8> {
    // "X-f: aaa...\r\n" of exactly the given length (>= 8)
    let mut v = b"X-f: ".to_vec();
    v.extend(std::iter::repeat(b'f').take(total_with_crlf - 7));
    v.extend_from_slice(b"\r\n");
    v
}

/// A complete GET request of exactly `pad` bytes (pad >= 27).
pub fn prefix_request(pad: usize) -> Vec<u8> {
    let mut v = b"GET /p HTTP/1.1\r\n".to_vec();
    let mut rest = pad - 17 - 2;
    while rest > 0 {
        let l = if rest > 900 + 8 { 900 } else { rest };
        v.extend_from_slice(&filler_header(l));
        rest -= l;
    }
    v.extend_from_slice(b"\r\n");
    assert_eq!(v.len(), pad);
    v
}

pub fn body_of(n: usize) -> Vec<u8> {
    let mut b = alphabet::tricky_body(n.min(64));
    let mut i = 0usize;
    while b.len() < n {
        b.push(b'a' + (i % 23) as u8);
        i += 1;
    }
    b
}

/// Concrete streams around the real 1024-byte buffer edge (R-build).
pub fn streams(thorough: bool) -> Vec<(String, Vec<u8>)> {
    let b = crate::connx::buffer_size();
    let mut out: Vec<(String, Vec<u8>)> = vec![];
    let tail = request("GET", "/tail", &[("X-t", "1")], b"");
    // A first request of exactly `pad` bytes places the next line at offset `pad` mod b.
    let first = |pad: usize| -> Vec<u8> {
        // "GET /p HTTP/1.1\r\n" (17) + filler header + "\r\n" (2)
        let mut v = b"GET /p HTTP/1.1\r\n".to_vec();
        let mut rest = pad - 17 - 2;
        while rest > 0 {
            let l = if rest > 900 + 8 { 900 } else { rest };
            v.extend_from_slice(&filler_header(l));
            rest -= l;
        }
        v.extend_from_slice(b"\r\n");
        assert_eq!(v.len(), pad);
        v
    };
    let offsets: Vec<usize> = if thorough { vec![0, 1, 2, 500, b - 3, b - 2, b - 1] } else { vec![0, b - 2, b - 1] };
    let lens: Vec<usize> = if thorough { vec![b - 3, b - 2, b - 1, b, b + 1, b + 2] } else { vec![b - 1, b, b + 1] };
    // header line of length L starting at offset o (mod b) inside a second request
    for &o in &offsets {
        for &l in &lens {
            let mut s = vec![];
            if o >= 40 || o == 0 {
                if o > 0 {
                    s.extend_from_slice(&first(o));
                }
            } else {
                s.extend_from_slice(&first(b + o));
            }
            // request line then long header line: place the *header* line at offset o by sizing
            // the first request so that request-line end lands there
            let rl = b"PUT /h HTTP/1.1\r\n";
            // shift: we want header at offset o, so the request line must start at o - 17 (mod b)
            let mut s2 = vec![];
            let start = (s.len() + b * 4 - rl.len()) % b; // where rl would need to start (mod b)
            let _ = start;
            s2.extend_from_slice(&s);
            s2.extend_from_slice(rl);
            s2.extend_from_slice(&filler_header(l));
            s2.extend_from_slice(b"Content-Length: 3\r\n\r\nxyz");
            s2.extend_from_slice(&tail);
            out.push((format!("hdr_len{}_after{}", l, s.len() + rl.len()), s2));
            // request line of length L at offset o
            let mut s3 = s.clone();
            let mut rl2 = b"GET /".to_vec();
            rl2.extend(std::iter::repeat(b'u').take(l - 5 - 9 - 2));
            rl2.extend_from_slice(b" HTTP/1.1\r\n");
            assert_eq!(rl2.len(), l);
            s3.extend_from_slice(&rl2);
            s3.extend_from_slice(b"X-a: 1\r\n\r\n");
            s3.extend_from_slice(&tail);
            out.push((format!("reqline_len{}_at{}", l, s.len()), s3));
        }
    }
    // CR at offset b-1 / LF at offset 0; header block ending exactly at the edge
    for delta in [0usize, 1, 2, 3, 4] {
        let mut s = first(b - 20 + delta - 4 + 17 - 17);
        // a short header whose CRLF straddles the edge for some delta
        s.extend_from_slice(b"PUT /e HTTP/1.1\r\nContent-Length: 5\r\n\r\nhello");
        s.extend_from_slice(&tail);
        out.push((format!("edge_straddle_{}", delta), s));
    }
    // bodies whose end is at / before / after the edge, followed by a pipelined request
    let body_lens: Vec<usize> = if thorough { vec![b - 1, b, b + 1, 2 * b - 1, 2 * b, 2 * b + 1] } else { vec![b, b + 1] };
    for &n in &body_lens {
        for head_pad in [0usize, 1, 2] {
            let body = body_of(n);
            let pad = "p".repeat(head_pad);
            let mut s = request("PUT", &format!("/b{}", pad), &[], &body);
            s.extend_from_slice(&tail);
            out.push((format!("body{}_pad{}", n, head_pad), s));
        }
    }
    // head sized so that the body END lands exactly at k*b
    for n in [3usize, 40] {
        let body = body_of(n);
        let mut head = b"PUT /x HTTP/1.1\r\n".to_vec();
        let cl = format!("Content-Length: {}\r\n\r\n", n);
        let fill = b - head.len() - cl.len() - n;
        head.extend_from_slice(&filler_header(fill));
        head.extend_from_slice(cl.as_bytes());
        head.extend_from_slice(&body);
        assert_eq!(head.len(), b);
        head.extend_from_slice(&tail);
        out.push((format!("body_end_at_edge_{}", n), head));
    }
    // five pipelined small requests, with expect, and a truncated last one
    let mut s = vec![];
    for i in 0..5 {
        if i % 2 == 0 {
            s.extend_from_slice(&request("GET", &format!("/r{}", i), &[("X-i", "v")], b""));
        } else {
            s.extend_from_slice(&request("PATCH", &format!("/r{}", i), &[("Expect", "100-continue")], b"0123456789"));
        }
    }
    s.extend_from_slice(b"GET /trunc HTTP/1.1\r\nX-a");
    out.push(("five_pipelined_then_truncated".into(), s));
    // one read completes a request and leaves the next one in mid-body
    out.push(("20_compact_get_put6_get".into(), b"GET /a HTTP/1.1\r\n\r\nPUT /b HTTP/1.1\r\nContent-Length: 6\r\n\r\nabcdefGET /c HTTP/1.0\r\n\r\n".to_vec()));
    // many minimal requests completing inside one read
    for count in [20usize, 56] {
        let mut s = vec![];
        for i in 0..count {
            s.extend_from_slice(if i % 2 == 0 { &b"GET / HTTP/1.1\r\n\r\n"[..] } else { &b"PUT / HTTP/1.0\r\n\r\n"[..] });
        }
        out.push((format!("{}_minimal_pipelined_requests", count), s));
    }
    // malformed tail after good requests
    let mut s = request("GET", "/ok", &[], b"");
    s.extend_from_slice(&filler_header(30)[..]);
    out.push(("good_then_header_without_request_line".into(), s));
    let mut s = request("PUT", "/ok", &[], b"12345");
    s.extend_from_slice(b"GET /x HTTP/1.1\r\nContent-Length: 51201\r\n\r\n");
    out.push(("good_then_oversized_declaration".into(), s));
    if !thorough {
        // quick: keep a representative third
        let keep: Vec<(String, Vec<u8>)> = out.into_iter().enumerate().filter(|(i, x)| i % 3 == 0 || x.0.starts_with("20_")).map(|(_, x)| x).collect();
        return keep;
    }
    out
}

pub fn run(thorough: bool) -> Vec<Part> {
    let mut parts = vec![];
    if small_build() {
        let mut part = Part::new("C01", "alphabet-s", "model_checking");
        part.assume("S-build: BUFFER_SIZE = 32 (cfg micro_http_verif_small), payload limit 40; streams = all sequences over the piece alphabet, any length, grammar-guided (body pieces only while a body is awaited)");
        part.assume("reads returning no data (EAGAIN/EINTR) are not 'the first error': they may report StreamReadError or Ok, deliver nothing, and must not change what is delivered afterwards");
        part.assume("error kinds are compared by the element at fault (request line / method / URI / version / header / payload(L,n)), never by message text");
        let mut cfg = Cfg::base("C01", "alphabet", alphabet::small(if thorough { 1 } else { 0 }), 40);
        cfg.eof = thorough;
        let limits = Limits { max_states: if thorough { 12_000_000 } else { 1_500_000 }, max_secs: if thorough { 1500.0 } else { 200.0 }, ..Default::default() };
        let st = bfs(&cfg, &limits, workers());
        record(&mut part, "alphabet", &st);
        crate::explore::require_facts(&mut part, "alphabet", &st, &[
            "read_ended_between_CR_and_LF", "read_ended_right_after_a_line_CRLF_inside_header_block",
            "read_filled_the_offered_space_completely", "read_ended_exactly_at_body_end", "read_ended_inside_body",
            "read_carried_bytes_past_a_completed_request", "empty_read_while_partial_line_buffered",
            "read_filled_space_after_carry(line_crossed_buffer_edge)", "read_completed_two_or_more_requests"]);
        part.set("alphabet_pieces", json!(cfg.pieces.len()));
        if thorough {
            // the full 35-piece alphabet, explored as far as the cap allows (reported as capped)
            let mut full = Cfg::base("C01", "alphabet-full", alphabet::small(2), 40);
            full.empty_reads = false;
            let stf = bfs(&full, &Limits { max_states: 5_000_000, max_secs: 600.0, ..Default::default() }, workers());
            record(&mut part, "alphabet-full (capped)", &stf);
            for (v, _) in &stf.violations {
                part.violations.push(v.clone());
            }
        }
        {
            // the application answers every request it pops and writes at once: the write path
            // works on the same connection object between the reads
            let mut acfg = cfg.clone();
            acfg.answer_requests = true;
            let tl = crate::connx::stateless_sequences(&acfg, if thorough { 4 } else { 3 }, workers());
            crate::connx::record_stateless(&mut part, "alphabet piece sequences (application answers each request)", &tl);
        }
        {
            // the application may look late: reads after which it pops nothing, or exactly one
            // request; pipelined minimal requests so that several are waiting
            // distinguishable requests, so that an overtaking is visible
            let mut pieces = vec![
                crate::connx::piece("rl_a", crate::connx::Class::ReqLine, b"GET /a HTTP/1.1\r\n"),
                crate::connx::piece("rl_b", crate::connx::Class::ReqLine, b"GET /b HTTP/1.0\r\n"),
                crate::connx::piece("rl_c", crate::connx::Class::ReqLine, b"PATCH /c HTTP/1.1\r\n"),
                crate::connx::piece("blank", crate::connx::Class::Blank, b"\r\n"),
            ];
            if thorough {
                pieces.push(crate::connx::piece("h_xa", crate::connx::Class::Header, b"X-a: 1\r\n"));
                pieces.push(crate::connx::piece("h_cl3", crate::connx::Class::Header, b"Content-Length: 3\r\n"));
                pieces.push(crate::connx::piece("body_abc", crate::connx::Class::Body, b"abc"));
            }
            let mut dcfg = Cfg::base("C01", "late and partial pops (pipelined requests)", pieces, 40);
            dcfg.allow_defer = true;
            dcfg.answer_requests = true;
            dcfg.empty_reads = false;
            dcfg.offer_when_queued_le = if thorough { 24 } else { 18 };
            let st = bfs(&dcfg, &Limits { max_states: if thorough { 3_000_000 } else { 400_000 }, max_secs: if thorough { 600.0 } else { 40.0 }, ..Default::default() }, workers());
            record(&mut part, &dcfg.label, &st);
            for (v, _) in &st.violations {
                part.violations.push(v.clone());
            }
        }
        // Independent, stateless cross-check (no state digest involved anywhere): concrete
        // streams, every segmentation with at most 2 (thorough: 3) cuts, with and without
        // empty reads before each segment; the observation sequence must equal the greedy
        // run's and the step-wise reference comparison must hold on every run.
        let pcs = alphabet::small(2);
        let by = |name: &str| pcs.iter().find(|p| p.name == name).unwrap().bytes.clone();
        let seqs: Vec<Vec<&str>> = vec![
            vec!["rl_get", "h_xa", "blank", "rl_put10", "h_cl3", "blank", "body_abc", "rl_get", "blank"],
            vec!["rl_put10", "h_expect", "h_cl40", "blank", "body_tricky40", "rl_get", "h_xbb", "blank"],
            vec!["rl_len_b", "h_len_b", "h_xa", "blank", "rl_get", "blank"],
            vec!["rl_get", "h_len_b-1", "h_xbb", "h_len_b", "blank", "rl_get", "blank"],
            vec!["rl_get", "h_xa", "h_len_b+1", "blank"],
            vec!["rl_get", "blank", "rl_len_b+1"],
            vec!["rl_patch_utf8", "h_cl3_lower", "h_expect_unsupported", "blank", "body_abc", "rl_bad_version"],
            vec!["rl_get", "h_cl41", "blank", "body_abc"],
            vec!["rl_get", "h_xa", "stray_cr", "blank"],
            vec!["rl_put10", "h_cl3", "blank", "body_abc", "rl_put10", "h_cl3", "blank", "body_abc", "rl_get", "h_nocolon"],
        ];
        let streams: Vec<Vec<u8>> = seqs.iter().map(|q| q.iter().flat_map(|n| by(n)).collect()).collect();
        let maxcuts = if thorough { 3 } else { 2 };
        let mut jobs: Vec<(usize, usize)> = vec![];
        for (si, st) in streams.iter().enumerate() {
            for c1 in 0..st.len() {
                jobs.push((si, c1));
            }
        }
        let streams2 = streams.clone();
        let t = crate::par::par_enum(
            jobs.len() as u64,
            workers(),
            300,
            move |j, t| {
                let (si, c1) = jobs[j as usize];
                let st = &streams2[si];
                let n = st.len();
                let mut cfg = Cfg::base("C01", &format!("stateless stream #{}", si), vec![], 40);
                cfg.stream = Some(st.clone());
                cfg.answer_requests = si % 2 == 1;
                let (gv, gobs, _, gacts) = crate::connx::run_segments(&cfg, &[n], false);
                if let Some((sig, d)) = gv {
                    t.violate(&sig, format!("[stream #{} greedy] {}", si, d), crate::connx::schedule_replay(&cfg, &gacts));
                    return;
                }
                let mut try_cuts = |cuts: &[usize], t: &mut crate::par::Tally| {
                    let mut segs = vec![];
                    let mut prev = 0;
                    for c in cuts.iter().chain(std::iter::once(&n)) {
                        if *c > prev {
                            segs.push(*c - prev);
                            prev = *c;
                        }
                    }
                    for empties in [false, true] {
                        let (v, obs, _, acts) = crate::connx::run_segments(&cfg, &segs, empties);
                        t.evals += 1;
                        if cuts.len() >= 2 {
                            t.nontrivial += 1;
                        }
                        if let Some((sig, d)) = v {
                            t.violate(&sig, format!("[stream #{} cuts {:?} empties {}] {}", si, cuts, empties, d), crate::connx::schedule_replay(&cfg, &acts));
                        } else if obs != gobs {
                            t.violate("segmentation-dependent-delivery", format!("stream #{} cut at {:?} (empty reads: {}) delivers a different observation sequence than the unsplit stream", si, cuts, empties), crate::connx::schedule_replay(&cfg, &acts));
                        }
                    }
                };
                if c1 == 0 {
                    try_cuts(&[], t);
                    return;
                }
                try_cuts(&[c1], t);
                for c2 in c1 + 1..n {
                    try_cuts(&[c1, c2], t);
                    if maxcuts >= 3 {
                        for c3 in c2 + 1..n {
                            try_cuts(&[c1, c2, c3], t);
                        }
                    }
                }
                if c1 == 7 {
                    t.sample(json!({"stream": crate::util::show(st), "first_cut": c1, "max_cuts": maxcuts}));
                }
            },
            |j| format!("stateless cut job {}", j),
        );
        part.add("stateless_runs", t.evals);
        part.set("stateless_streams", json!(streams.len()));
        part.set("stateless_max_cuts", json!(maxcuts));
        part.add("traces_validated_against_impl", t.evals);
        for v in &t.violations {
            part.violations.push(v.clone());
        }
        for e in &t.machinery_errors {
            part.machinery_errors.push(e.clone());
        }
        for smp in t.samples.iter().take(1) {
            part.push("samples", json!({"stateless": smp}));
        }
        for (v, _) in &st.violations {
            part.violations.push(v.clone());
        }
        parts.push(part);
    } else {
        let mut part = Part::new("C01", "streams-r", "model_checking");
        part.assume("R-build: real BUFFER_SIZE = 1024, default payload limit 51200; for each generated stream every segmentation into reads (any number of cuts, every read size 1..space) is explored as a graph over (stream position, connection digest)");
        let ss = streams(thorough);
        part.set("streams", json!(ss.len()));
        let only = std::env::var("MHV_ONLY").ok();
        for (name, s) in ss {
            if let Some(o) = &only {
                if !name.contains(o.as_str()) {
                    continue;
                }
            }
            let mut cfg = Cfg::base("C01", &name, vec![], 51200);
            cfg.stream = Some(s.clone());
            cfg.empty_reads = false;
            cfg.answer_requests = true;
            let limits = Limits { max_states: 2_000_000, max_secs: 600.0, ..Default::default() };
            let st = bfs(&cfg, &limits, workers());
            record(&mut part, &name, &st);
            for (v, _) in &st.violations {
                part.violations.push(v.clone());
            }
            if !part.violations.is_empty() {
                break;
            }
        }
        // larger scales, stateless: multi-KiB bodies and long header lines arriving in many
        // reads of assorted sizes, with empty reads in between
        {
            let mut cases: Vec<(String, Vec<u8>)> = vec![];
            for n in [4096usize, 5000, 9000, 20000] {
                let mut s = request("PUT", "/big", &[("X-a", "1")], &body_of(n));
                s.extend_from_slice(&request("GET", "/after", &[], b""));
                cases.push((format!("body {}", n), s));
            }
            for (lines, len) in [(1usize, 900usize), (3, 1000), (150, 40), (8, 1020)] {
                let mut s = b"GET /h HTTP/1.1\r\n".to_vec();
                for i in 0..lines {
                    let mut l = format!("X-{:03}: ", i).into_bytes();
                    while l.len() < len - 2 {
                        l.push(b'v');
                    }
                    l.extend_from_slice(b"\r\n");
                    s.extend_from_slice(&l);
                }
                s.extend_from_slice(b"\r\n");
                s.extend_from_slice(&request("GET", "/after", &[], b""));
                cases.push((format!("{} header lines of {} bytes", lines, len), s));
            }
            let t = crate::par::par_enum(
                cases.len() as u64,
                workers().min(cases.len()),
                300,
                |i, t| {
                    let (name, s) = &cases[i as usize];
                    let mut cfg = Cfg::base("C01", name, vec![], 51200);
                    cfg.stream = Some(s.clone());
                    let len = s.len();
                    let (_, gobs, _, _) = crate::connx::run_segments(&cfg, &[len], false);
                    for seg in [1usize, 7, 20, 37, 100, 500, 1000, 1023, 1024, 4096] {
                        if seg == 1 && len > 12000 {
                            continue;
                        }
                        for empties in [false, true] {
                            let segs = vec![seg; len / seg + 1];
                            let (v, obs, _, acts) = crate::connx::run_segments(&cfg, &segs, empties);
                            t.evals += 1;
                            t.nontrivial += 1;
                            if let Some((sig, d)) = v {
                                t.violate(&sig, format!("[{} in reads of {} bytes, empty reads {}] {}", name, seg, empties, d), crate::connx::schedule_replay(&cfg, &acts[..acts.len().min(400)]));
                            } else if obs != gobs {
                                t.violate("segmentation-dependent-delivery", format!("{} in reads of {} bytes (empty reads {}) delivers differently from greedy reads", name, seg, empties), crate::connx::schedule_replay(&cfg, &acts[..acts.len().min(400)]));
                            }
                        }
                    }
                    t.sample(json!({"large_scale_case": name, "bytes": len}));
                },
                |i| format!("large-scale case {}", i),
            );
            part.add("stateless_runs", t.evals);
            part.add("traces_validated_against_impl", t.evals);
            for v in &t.violations {
                part.violations.push(v.clone());
            }
            for e in &t.machinery_errors {
                part.machinery_errors.push(e.clone());
            }
        }
        parts.push(part);
    }
    parts
}
