//! C14 — one-shot request parsing agrees with the incremental connection parser.
use crate::connx::{self, view_request, Conn};
use crate::par::par_enum;
use crate::props::{gen, small_build};
use crate::spec::stream::SpecRequest;
use crate::stream::ReadAns;
use crate::util::{self, workers, Part};
use micro_http::{ConnectionError, Request};
use serde_json::json;

const SENTINEL: &[u8] = b"GET /sentinel HTTP/1.1\r\nX-s: 1\r\n\r\n";

/// Feeds `bytes` greedily; returns delivered requests, first error (as text) or a panic.
fn feed(c: &mut Conn, bytes: &[u8]) -> Result<(Vec<SpecRequest>, Option<String>), String> {
    let mut out = vec![];
    let mut pos = 0;
    while pos < bytes.len() {
        let o = connx::do_read(c, ReadAns::Data(bytes[pos..].to_vec(), vec![]));
        for r in &o.delivered {
            out.push(view_request(r));
        }
        match o.result {
            Err(p) => return Err(p),
            Ok(Ok(())) => {}
            Ok(Err(ConnectionError::ParseError(e))) => return Ok((out, Some(format!("{:?}", e)))),
            Ok(Err(e)) => return Ok((out, Some(format!("{:?}", e)))),
        }
        if o.taken == 0 {
            return Ok((out, Some("no progress".into())));
        }
        pos += o.taken;
    }
    Ok((out, None))
}

fn judge(slice: &[u8], t: &mut crate::par::Tally, what: &str) {
    judge_with(slice, t, what, 51200);
}

fn judge_with(slice: &[u8], t: &mut crate::par::Tally, what: &str, limit: usize) {
    let one = util::catch(|| Request::try_from(slice, None).map(|r| view_request(&r)));
    let one = match one {
        Ok(x) => x,
        Err(p) => {
            t.violate("panic", format!("Request::try_from panicked on {:?}: {}", util::show(slice), p), json!({"engine": "c14", "slice": util::hex(slice)}));
            return;
        }
    };
    // max_len rule
    let n = slice.len();
    for (m, must_reject) in [(n.saturating_sub(1), true), (n, true), (n + 1, false)] {
        let r = Request::try_from(slice, Some(m));
        t.evals += 1;
        let bad = if must_reject { r.is_ok() } else { r.is_ok() != one.is_ok() };
        if bad {
            t.violate("max-len", format!("Request::try_from(len {}, Some({})) = {} but unlimited parse = {} ({})", n, m, if r.is_ok() { "Ok" } else { "Err" }, if one.is_ok() { "Ok" } else { "Err" }, what), json!({"engine": "c14", "slice": util::hex(slice)}));
        }
    }
    let mut c = Conn::new(limit);
    let fed = match feed(&mut c, slice) {
        Ok(x) => x,
        Err(p) => {
            t.violate("panic", format!("connection panicked on {:?}: {}", util::show(slice), p), json!({"engine": "c14", "slice": util::hex(slice)}));
            return;
        }
    };
    t.evals += 1;
    // the connection fed one byte at a time must behave like the connection fed greedily
    {
        let mut c1 = Conn::new(limit);
        let mut out1: Vec<SpecRequest> = vec![];
        let mut err1: Option<String> = None;
        for b in slice {
            match feed(&mut c1, &[*b]) {
                Ok((rs, e)) => {
                    out1.extend(rs);
                    if e.is_some() {
                        err1 = e;
                        break;
                    }
                }
                Err(p) => {
                    t.violate("panic", format!("connection panicked on {:?} fed byte by byte: {}", util::show(slice), p), json!({"engine": "c14", "slice": util::hex(slice)}));
                    return;
                }
            }
        }
        if out1 != fed.0 || err1.is_some() != fed.1.is_some() {
            t.violate(
                "connection-segmentation",
                format!("connection fed {:?} greedily delivers {} requests (error {:?}), fed byte by byte {} requests (error {:?}) ({})", util::show(slice), fed.0.len(), fed.1, out1.len(), err1, what),
                json!({"engine": "c14", "slice": util::hex(slice)}),
            );
        }
    }
    let lines_ok = {
        // every line up to the end of the header block within the line limit
        let mut ok = true;
        let mut start = 0;
        while let Some(i) = slice[start..].windows(2).position(|w| w == b"\r\n") {
            if i + 2 > connx::buffer_size() {
                ok = false;
            }
            if i == 0 {
                break;
            }
            start += i + 2;
        }
        ok
    };
    // (=>) one-shot accepts => the connection's first delivered request is identical
    if let Ok(r1) = &one {
        if lines_ok && (r1.headers.content_length as usize) <= limit {
            t.count("one_shot_accepts");
            match fed.0.first() {
                Some(r2) if r2 == r1 => {}
                other => t.violate(
                    "oneshot-accepts-connection-differs",
                    format!("one-shot parser accepts {:?} as [{}] but the connection's first delivery is {} (error {:?}) ({})", util::show(slice), connx::show_req(r1), other.map(connx::show_req).unwrap_or("nothing".into()), fed.1, what),
                    json!({"engine": "c14", "slice": util::hex(slice)}),
                ),
            }
        }
    }
    // (<=) the connection turns the slice into exactly one request with nothing left over
    if fed.1.is_none() && fed.0.len() == 1 {
        let after = feed(&mut c, SENTINEL);
        if let Ok((rs, None)) = &after {
            if rs.len() == 1 && rs[0].uri == "/sentinel" {
                t.count("connection_exactly_one_request");
                t.nontrivial += 1;
                let r2 = &fed.0[0];
                let get_with_body = r2.method == crate::spec::stream::Method::Get && r2.headers.content_length > 0;
                match &one {
                    Ok(r1) if r1 == r2 => {}
                    Err(_) if get_with_body => t.count("get_with_declared_body_rejected_by_one_shot_only"),
                    other => t.violate(
                        "connection-accepts-oneshot-differs",
                        format!("the connection turns {:?} into exactly [{}] but the one-shot parser gives {} ({})", util::show(slice), connx::show_req(r2), match other { Ok(r) => connx::show_req(r), Err(e) => format!("Err({:?})", e) }, what),
                        json!({"engine": "c14", "slice": util::hex(slice)}),
                    ),
                }
            }
        }
    }
    t.outcome(util::hash64(&[&[one.is_ok() as u8, fed.1.is_none() as u8, fed.0.len() as u8]]));
}

pub fn replay(v: &serde_json::Value) -> (bool, serde_json::Value) {
    let slice = util::unhex(v["slice"].as_str().unwrap());
    let mut t = crate::par::Tally::default();
    judge(&slice, &mut t, "replay");
    (!t.violations.is_empty(), json!({"slice": util::show(&slice), "violations": t.violations.iter().map(|v| v.detail.clone()).collect::<Vec<_>>()}))
}

pub fn run(thorough: bool) -> Vec<Part> {
    if small_build() {
        return vec![];
    }
    let mut part = Part::new("C14", "differential-r", "exploration");
    part.assume("for every base request of the grammar x every single-point corruption (as in C02) x trailing bytes {none, one byte, garbage, another request}: Request::try_from(slice, None/Some(len-1)/Some(len)/Some(len+1)) vs a fresh HttpConnection fed the slice greedily; 'exactly one request with nothing left over' is decided without a hook by feeding a sentinel request afterwards and requiring exactly that one more delivery");
    let bases = gen::bases(true);
    let _ = thorough;
    let trailers: Vec<&[u8]> = vec![b"", b"x", b"\r\n", b"GET /next HTTP/1.1\r\n\r\n"];
    let mut items: Vec<(usize, usize)> = vec![];
    for (bi, b) in bases.iter().enumerate() {
        for k in 0..gen::corruption_count(b.bytes.len()) {
            items.push((bi, k));
        }
    }
    let block = 64usize;
    let nblocks = (items.len() + block - 1) / block;
    let t = par_enum(
        nblocks as u64,
        workers(),
        120,
        |bi, t| {
            for &(b, k) in items.iter().skip(bi as usize * block).take(block) {
                let (what, mid) = match gen::corrupt(&bases[b].bytes, k) {
                    Some(x) => x,
                    None => continue,
                };
                for tr in &trailers {
                    let mut s = mid.clone();
                    s.extend_from_slice(tr);
                    judge(&s, t, &format!("{} / {} / trailer {:?}", bases[b].name, what, util::show(tr)));
                }
                if k == 17 && b % 7 == 0 {
                    t.sample(json!({"base": bases[b].name, "corruption": what, "slice": util::show(&mid)}));
                }
            }
        },
        |bi| format!("block {}", bi),
    );
    t.record(&mut part, "one-shot-vs-connection");
    if thorough {
        // double corruptions of the first bases: a second single-point corruption (every third
        // index) applied to every single-point corruption
        let nb = bases.len().min(24);
        let mut jobs: Vec<(usize, usize)> = vec![];
        for b in 0..nb {
            for k in 1..gen::corruption_count(bases[b].bytes.len()) {
                jobs.push((b, k));
            }
        }
        let bases2 = bases.clone();
        let t3 = par_enum(
            ((jobs.len() + 15) / 16) as u64,
            workers(),
            300,
            move |blk, t| {
                for &(b, k1) in jobs.iter().skip(blk as usize * 16).take(16) {
                    let (w1, mid) = match gen::corrupt(&bases2[b].bytes, k1) {
                        Some(x) => x,
                        None => continue,
                    };
                    let mut k2 = 1 + (k1 % 3);
                    while k2 < gen::corruption_count(mid.len()) {
                        if let Some((w2, mid2)) = gen::corrupt(&mid, k2) {
                            judge(&mid2, t, &format!("{} / {} then {}", bases2[b].name, w1, w2));
                        }
                        k2 += 3;
                    }
                }
            },
            |blk| format!("double corruption block {}", blk),
        );
        t3.record(&mut part, "double-corruptions");
    }
    // header blocks longer than the receive buffer: every head size in a window of 1100
    // consecutive sizes, so that greedy reads end at every alignment relative to the head end
    let t2 = par_enum(
        1100,
        workers(),
        120,
        |pad, t| {
            for (method, body) in [("PUT", &b"0123456789012345678901234567890123456789"[..]), ("GET", &b""[..])] {
                let mut s = format!("{} /big HTTP/1.1\r\n", method).into_bytes();
                let mut left = 1000 + pad as usize;
                let mut i = 0;
                while left > 0 {
                    let l = left.min(73 + (i % 5));
                    let l = if left - l < 8 && left != l { left } else { l };
                    if l < 8 {
                        break;
                    }
                    let mut h = format!("X-{:03}: ", i).into_bytes();
                    while h.len() < l - 2 {
                        h.push(b'v');
                    }
                    h.extend_from_slice(b"\r\n");
                    left -= h.len().min(left);
                    s.extend_from_slice(&h);
                    i += 1;
                }
                if !body.is_empty() {
                    s.extend_from_slice(format!("Content-Length: {}\r\n", body.len()).as_bytes());
                }
                s.extend_from_slice(b"\r\n");
                s.extend_from_slice(body);
                judge(&s, t, &format!("big head, pad {}", pad));
            }
            if pad == 500 {
                t.sample(json!({"big_head_pad": pad}));
            }
        },
        |pad| format!("big head pad {}", pad),
    );
    t2.record(&mut part, "heads-larger-than-the-buffer");
    // request-line lengths around the line limit; bodies beyond the default limit under a raised one
    let t4 = par_enum(
        260,
        workers(),
        300,
        |i, t| {
            if i < 250 {
                let l = 880 + i as usize; // request line length without CRLF
                for method in ["GET", "PATCH"] {
                    let fill = l - method.len() - 2 - 9;
                    let mut s = format!("{} /", method).into_bytes();
                    s.extend(std::iter::repeat(b'u').take(fill));
                    s.extend_from_slice(b" HTTP/1.1\r\nX-a: 1\r\n\r\n");
                    judge(&s, t, &format!("request line of {} bytes", l));
                }
            } else {
                let n = [51200usize, 51201, 60000, 65535, 65536, 65537, 70000, 131072, 1 << 17, 200000][(i - 250) as usize];
                let mut s = format!("PUT /b HTTP/1.1\r\nContent-Length: {}\r\n\r\n", n).into_bytes();
                s.extend((0..n).map(|j| (j % 251) as u8));
                judge_with(&s, t, &format!("body of {} bytes under limit 300000", n), 300000);
            }
        },
        |i| format!("length case {}", i),
    );
    t4.record(&mut part, "line-and-body-length-sweeps");
    part.set("rule", json!("every (base, corruption, trailer) triple is a distinct slice; non-trivial = the connection turns the slice into exactly one request with nothing left over (the <= direction applies)"));
    part.set("exhaustive", json!(true));
    vec![part]
}
