//! C11 — a rejected request is never delivered later; parsing restarts clean after errors.
use crate::connx::Cfg;
use crate::explore::{bfs, record, Limits};
use crate::props::{alphabet, small_build};
use crate::util::{workers, Part};

pub fn run(thorough: bool) -> Vec<Part> {
    let mut parts = vec![];
    if small_build() {
        let mut part = Part::new("C11", "post-error-lockstep-s", "model_checking");
        part.assume("S-build: BUFFER_SIZE = 32, payload limit 40; the alphabet product is continued past every parse error in lock-step with a fresh HttpConnection (same limit) created at the error: both receive exactly the same reads from then on and must deliver the same requests, errors and interim responses (differential oracle; by induction over repeated errors)");
        part.assume("bytes that were received by the read that reported the error belong to the rejected input and are discarded with it");
        let mut cfg = Cfg::base("C11", "post-error-lockstep", alphabet::small(if thorough { 1 } else { 0 }), 40);
        cfg.continue_after_error = true;
        cfg.empty_reads = false;
        let limits = Limits { max_states: 14_000_000, max_secs: if thorough { 1500.0 } else { 150.0 }, ..Default::default() };
        let st = bfs(&cfg, &limits, workers());
        record(&mut part, "post-error-lockstep", &st);
        {
            let tl = crate::connx::stateless_sequences(&cfg, if thorough { 4 } else { 3 }, workers());
            crate::connx::record_stateless(&mut part, &cfg.label, &tl);
        }
        crate::explore::require_facts(&mut part, "post-error-lockstep", &st, &["continued_after_parse_error", "parse_error_while_partial_line_was_buffered_before_the_read"]);
        for (v, _) in &st.violations {
            part.violations.push(v.clone());
        }
        // descriptors arriving before / with / after the rejected input: those pending at the
        // error go with it, later ones belong to later requests (C12 defers this case to C11)
        {
            use crate::connx::{piece, Class};
            let pcs = vec![
                piece("rl_get", Class::ReqLine, b"GET / HTTP/1.1\r\n"),
                piece("rl_bad_version", Class::ReqLine, b"GET / HTTP/1.2\r\n"),
                piece("h_xa", Class::Header, b"X-a: 1\r\n"),
                piece("h_nocolon", Class::Header, b"nocolon\r\n"),
                piece("blank", Class::Blank, b"\r\n"),
            ];
            let mut fcfg = Cfg::base("C11", "post-error-lockstep-with-descriptors", pcs, 40);
            fcfg.continue_after_error = true;
            fcfg.empty_reads = false;
            fcfg.max_fds_per_read = 1;
            fcfg.max_pending_fds = 2;
            let st2 = bfs(&fcfg, &Limits { max_states: 4_000_000, max_secs: if thorough { 1500.0 } else { 60.0 }, ..Default::default() }, workers());
            record(&mut part, "post-error-lockstep-with-descriptors", &st2);
            for (v, _) in &st2.violations {
                part.violations.push(v.clone());
            }
        }
        parts.push(part);
    } else {
        parts.push(crate::props::srv::c11_server(thorough));
    }
    parts
}
