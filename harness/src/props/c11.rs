//! C11 — a rejected request is never delivered later; parsing restarts clean after errors.
use crate::connx::Cfg;
use crate::explore::{bfs, record, Limits};
use crate::props::{alphabet, small_build};
use crate::util::{workers, Part};

pub fn run(thorough: bool) -> Vec<Part> {
    let mut parts = vec![];
    if small_build() {
        let mut part = Part::new("C11", "post-error-lockstep-s", "model_checking");
        part.assume("S-build: BUFFER_SIZE = 32, payload limit 40; the alphabet product is continued past every parse error in lock-step with a fresh HttpConnection (same limit) created at the error: both receive exactly the same reads from then on and must deliver the same requests, errors and interim responses (differential oracle; by induction over repeated errors)");
        part.assume("bytes that were received by the read that reported the error belong to the rejected input and are discarded with it");
        let mut cfg = Cfg::base("C11", "post-error-lockstep", alphabet::small(if thorough { 1 } else { 0 }), 40);
        cfg.continue_after_error = true;
        cfg.empty_reads = false;
        let limits = Limits { max_states: 8_000_000, max_secs: if thorough { 3000.0 } else { 150.0 }, ..Default::default() };
        let st = bfs(&cfg, &limits, workers());
        record(&mut part, "post-error-lockstep", &st);
        {
            let tl = crate::connx::stateless_sequences(&cfg, if thorough { 4 } else { 3 }, workers());
            crate::connx::record_stateless(&mut part, &cfg.label, &tl);
        }
        crate::explore::require_facts(&mut part, "post-error-lockstep", &st, &["continued_after_parse_error", "parse_error_while_partial_line_was_buffered_before_the_read"]);
        for (v, _) in &st.violations {
            part.violations.push(v.clone());
        }
        parts.push(part);
    } else {
        parts.push(crate::props::srv::c11_server(thorough));
    }
    parts
}
