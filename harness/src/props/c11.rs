//! C11 — a rejected request is never delivered later; parsing restarts clean after errors.
use crate::connx::Cfg;
use crate::explore::{bfs, record, Limits};
use crate::props::{alphabet, small_build};
use crate::util::{workers, Part};

pub fn run(thorough: bool) -> Vec<Part> {
    let mut parts = vec![];
    if small_build() {
        let mut part = Part::new("C11", "post-error-lockstep-s", "model_checking");
        part.assume("S-build: BUFFER_SIZE = 32, payload limit 40; the alphabet product is continued past every parse error in lock-step with a fresh HttpConnection (same limit) created at the error: both receive exactly the same reads from then on and must deliver the same requests, errors and interim responses (differential oracle; by induction over repeated errors)");
        part.assume("bytes that were received by the read that reported the error belong to the rejected input and are discarded with it");
        let mut cfg = Cfg::base("C11", "post-error-lockstep", alphabet::small(if thorough { 1 } else { 0 }), 40);
        cfg.continue_after_error = true;
        cfg.empty_reads = false;
        let limits = Limits { max_states: 14_000_000, max_secs: if thorough { 1500.0 } else { 150.0 }, ..Default::default() };
        let st = bfs(&cfg, &limits, workers());
        record(&mut part, "post-error-lockstep", &st);
        {
            let tl = crate::connx::stateless_sequences(&cfg, if thorough { 4 } else { 3 }, workers());
            crate::connx::record_stateless(&mut part, &cfg.label, &tl);
        }
        crate::explore::require_facts(&mut part, "post-error-lockstep", &st, &["continued_after_parse_error", "parse_error_while_partial_line_was_buffered_before_the_read"]);
        for (v, _) in &st.violations {
            part.violations.push(v.clone());
        }
        // descriptors arriving before / with / after the rejected input: those pending at the
        // error go with it, later ones belong to later requests (C12 defers this case to C11)
        {
            use crate::connx::{piece, Class};
            let pcs = vec![
                piece("rl_get", Class::ReqLine, b"GET / HTTP/1.1\r\n"),
                piece("rl_bad_version", Class::ReqLine, b"GET / HTTP/1.2\r\n"),
                piece("h_xa", Class::Header, b"X-a: 1\r\n"),
                piece("h_nocolon", Class::Header, b"nocolon\r\n"),
                piece("blank", Class::Blank, b"\r\n"),
            ];
            let mut fcfg = Cfg::base("C11", "post-error-lockstep-with-descriptors", pcs, 40);
            fcfg.continue_after_error = true;
            fcfg.empty_reads = false;
            fcfg.max_fds_per_read = 1;
            fcfg.max_pending_fds = 2;
            let st2 = bfs(&fcfg, &Limits { max_states: 4_000_000, max_secs: if thorough { 1500.0 } else { 60.0 }, ..Default::default() }, workers());
            record(&mut part, "post-error-lockstep-with-descriptors", &st2);
            for (v, _) in &st2.violations {
                part.violations.push(v.clone());
            }
        }
        parts.push(part);
    } else {
        // long error histories on one connection (R-build, stateless): dozens of rejected
        // requests with header lines, then valid ones - per-request bookkeeping must not
        // accumulate across rejected requests
        let mut part = Part::new("C11", "long-error-histories-r", "model_checking");
        part.assume("R-build: streams of 43..200 rejected requests (each with 0-3 accepted header lines before the fault) followed by well-formed requests with headers and bodies, under greedy, 1024-, 100- and 7-byte reads, in lock-step with a fresh connection after every error");
        let mut cases: Vec<(String, Vec<u8>)> = vec![];
        for (n, hdrs) in [(43usize, 3usize), (70, 2), (200, 1), (140, 0)] {
            let mut st = vec![];
            for i in 0..n {
                st.extend_from_slice(format!("GET /bad{} HTTP/1.1\r\n", i).as_bytes());
                for h in 0..hdrs {
                    st.extend_from_slice(format!("X-h{}: {}\r\n", h, i).as_bytes());
                }
                st.extend_from_slice(b"nocolon\r\n");
            }
            st.extend_from_slice(b"PUT /good HTTP/1.1\r\nX-a: 1\r\nX-b: 2\r\nContent-Length: 3\r\n\r\nabcGET /tail HTTP/1.0\r\nX-c: 3\r\n\r\n");
            cases.push((format!("{} rejected requests with {} header lines each, then two valid requests", n, hdrs), st));
        }
        let t = crate::par::par_enum(
            cases.len() as u64,
            workers().min(cases.len()),
            300,
            |i, t| {
                let (name, st) = &cases[i as usize];
                let mut cfg = Cfg::base("C11", name, vec![], 51200);
                cfg.stream = Some(st.clone());
                cfg.continue_after_error = true;
                cfg.empty_reads = false;
                // every rejected request sits in its own reads: cut after each line
                let mut line_segs = vec![];
                let mut start = 0;
                for (j, w) in st.windows(2).enumerate() {
                    if w == b"\r\n" {
                        line_segs.push(j + 2 - start);
                        start = j + 2;
                    }
                }
                if start < st.len() {
                    line_segs.push(st.len() - start);
                }
                for segs in [line_segs, vec![7; st.len() / 7 + 1]] {
                    let (v, _, _, acts) = crate::connx::run_segments(&cfg, &segs, false);
                    t.evals += 1;
                    t.nontrivial += 1;
                    if let Some((sig, d)) = v {
                        t.violate(&sig, format!("[{}] {}", name, &d[..d.len().min(600)]), crate::connx::schedule_replay(&cfg, &acts[..acts.len().min(300)]));
                    }
                }
                t.sample(serde_json::json!({"case": name, "bytes": st.len()}));
            },
            |i| format!("long error history {}", i),
        );
        part.add("stateless_runs", t.evals);
        part.add("transitions", t.evals);
        part.add("traces_validated_against_impl", t.evals);
        for v in &t.violations {
            part.violations.push(v.clone());
        }
        for e in &t.machinery_errors {
            part.machinery_errors.push(e.clone());
        }
        parts.push(part);
        parts.push(crate::props::srv::c11_server(thorough));
    }
    parts
}
