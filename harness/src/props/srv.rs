//! Server-level properties (engine srvx): C07 C08 C09 C10 C18 and the server parts of C04 C11 C13.
use crate::explore::{bfs, record, Limits};
use crate::props::small_build;
use crate::srvx::{tagged_expect_head, tagged_get, tagged_put, ClientCfg, Orders, Role, SAct, SrvCfg};
use crate::util::{workers, Part};

fn explore(part: &mut Part, cfg: &SrvCfg, max_states: usize, max_secs: f64) {
    explore_req(part, cfg, max_states, max_secs, &[]);
}

fn explore_req(part: &mut Part, cfg: &SrvCfg, max_states: usize, max_secs: f64, required: &[&str]) {
    let limits = Limits { max_states, max_secs, item_timeout_s: 60, ..Default::default() };
    let st = bfs(cfg, &limits, workers());
    record(part, &cfg.label, &st);
    crate::explore::require_facts(part, &cfg.label, &st, required);
    for (v, _) in &st.violations {
        part.violations.push(v.clone());
    }
}

/// Script menu for feature-matrix configurations: (name, chunks, well-formed only?).
fn script_menu(c: usize) -> Vec<(&'static str, Vec<Vec<u8>>, bool)> {
    let pair = {
        let mut v = tagged_get(c, 0);
        v.extend_from_slice(&tagged_get(c, 1));
        v
    };
    let get_then_expect = {
        let mut v = tagged_get(c, 0);
        v.extend_from_slice(&tagged_expect_head(c, 1, 2));
        v
    };
    let get_then_garbage = {
        let mut v = tagged_get(c, 0);
        v.extend_from_slice(b"BAD LINE\r\n");
        v
    };
    let whole = tagged_put(c, 1, b"hello");
    vec![
        ("get", vec![tagged_get(c, 0)], true),
        ("pair", vec![pair], true),
        ("expect", vec![tagged_expect_head(c, 0, 3), b"abc".to_vec()], true),
        ("get+expect-head|body", vec![get_then_expect, b"ok".to_vec()], true),
        ("split-line|put", vec![tagged_get(c, 0)[..9].to_vec(), tagged_get(c, 0)[9..].to_vec(), whole], true),
        ("get+garbage", vec![get_then_garbage], false),
        ("get|garbage", vec![tagged_get(c, 0), b"BAD LINE\r\n".to_vec()], false),
        ("oversized", vec![format!("PUT /c{}/r0 HTTP/1.1\r\nContent-Length: 99999999\r\n\r\n", c).into_bytes()], false),
    ]
}

/// Two-client configurations combining every pair of script kinds (thorough) or each kind with
/// itself and with its successor (quick), with the property's standard client flags and oracles.
fn matrix(property: &str, thorough: bool) -> Vec<SrvCfg> {
    let mut out = vec![];
    let n = script_menu(0).len();
    for i in 0..n {
        for j in 0..n {
            if !thorough && !(j == i && [1usize, 3, 4, 5].contains(&i)) {
                continue;
            }
            let (ni, si, vi) = script_menu(0).swap_remove(i);
            let (nj, sj, vj) = script_menu(1).swap_remove(j);
            let label = format!("matrix {} x {}", ni, nj);
            let cfg = match property {
                "C08" => {
                    if !vi || !vj {
                        continue;
                    }
                    let mut c = SrvCfg::base("C08", &label, vec![ClientCfg::well_behaved(si), ClientCfg::well_behaved(sj)]);
                    c.closure_all = true;
                    c.flush_probe = true;
                    c.orders = Orders::AscRev;
                    c.max_outstanding_for_respond = 3;
                    if (i + j) % 3 == 0 {
                        c.resp_sizes = vec![5, 9000];
                        c.small_sndbuf = true;
                    }
                    c
                }
                "C07" => {
                    let mk = |sc: Vec<Vec<u8>>| {
                        let mut a = ClientCfg::adversary(sc);
                        a.reads = true;
                        a.can_shut_rd = false;
                        a.can_shut_wr = false;
                        a
                    };
                    let mut c = SrvCfg::base("C07", &label, vec![mk(si), mk(sj)]);
                    c.max_outstanding_for_respond = 3;
                    c.flush_action = (i + j) % 2 == 1;
                    c
                }
                "C09" => {
                    let mut a0 = ClientCfg::adversary(si);
                    a0.can_shut_wr = (i + j) % 2 == 0;
                    let mut a1 = ClientCfg::adversary(sj);
                    a1.can_close = (i + j) % 2 == 1;
                    a1.can_shut_wr = false;
                    let mut c = SrvCfg::base("C09", &label, vec![a0, a1, witness(2)]);
                    c.closure_witness = true;
                    c.release_check = true;
                    c.max_outstanding_for_respond = 2;
                    c
                }
                _ => continue,
            };
            out.push(cfg);
        }
    }
    out
}

fn run_matrix(part: &mut Part, property: &str, thorough: bool) {
    for cfg in matrix(property, thorough) {
        if !part.violations.is_empty() {
            break;
        }
        explore(part, &cfg, if thorough { 300_000 } else { 40_000 }, if thorough { 45.0 } else { 6.0 });
    }
}

/// Digest-free companion for a (small) server configuration.
fn companion(part: &mut Part, cfg: &SrvCfg, depth: usize) {
    let t = crate::explore::stateless_dfs(cfg, depth, workers());
    crate::explore::record_stateless(part, &cfg.label, depth, &t);
}

/// Long scripted histories: every prefix (from `from` on) of one fixed action sequence is a
/// state; monitors and terminal probes run on each. Reaches hidden counters that de-duplication
/// by digest cannot (hundreds of polls, tens of connections) without any search.
fn histories(part: &mut Part, cfg: &SrvCfg, path: Vec<SAct>, from: usize) {
    use crate::explore::System;
    let n = path.len() + 1 - from.min(path.len());
    let t = crate::par::par_enum(
        n as u64,
        workers().min(n),
        120,
        |i, t| {
            let cut = from.min(path.len()) + i as usize;
            let o = cfg.run(&path[..cut]);
            t.evals += 1;
            if o.nontrivial {
                t.nontrivial += 1;
            }
            t.outcome(o.obs % 4096);
            if let Some(v) = o.violation {
                t.violate(&v.signature, v.detail, v.replay);
            }
        },
        |i| format!("prefix of length {} of the scripted history of '{}'", from + i as usize, cfg.label),
    );
    part.add("histories", t.evals);
    part.add("transitions", t.evals);
    part.add("traces_validated_against_impl", t.evals);
    part.push("scripted_histories", serde_json::json!({"config": cfg.label, "actions": path.len(), "prefixes_run": t.evals, "distinct_outcome_classes": t.outcomes.len()}));
    for v in &t.violations {
        part.violations.push(v.clone());
    }
    for e in &t.machinery_errors {
        part.machinery_errors.push(format!("{}: {}", cfg.label, e));
    }
}

fn rep(a: SAct, n: usize) -> Vec<SAct> {
    std::iter::repeat(a).take(n).collect()
}

fn split_at(v: Vec<u8>, at: usize) -> Vec<Vec<u8>> {
    vec![v[..at].to_vec(), v[at..].to_vec()]
}

pub fn c08(thorough: bool) -> Vec<Part> {
    if small_build() {
        return vec![];
    }
    let mut part = Part::new("C08", "server-wellbehaved-r", "model_checking");
    part.assume("real HttpServer over AF_UNIX sockets and epoll in single-threaded worker processes; clients keep their connections open and send only well-formed requests; all interleavings of Connect/Send(next chunk)/Recv/Poll(only when the epoll descriptor is readable)/Respond(any outstanding request) within the scripts' budgets; from EVERY explored state a deterministic fair completion (application answers everything, poll while readable, clients drain) must yield each complete request exactly once, deliver every supplied response in full, and leave the epoll descriptor not readable; flush_outgoing_writes is a terminal probe from every state");
    part.assume("kernel: level-triggered epoll on AF_UNIX stream sockets as implemented by the running kernel; descriptor numbers are made reproducible by pre-creating client sockets and normalising the worker's descriptor table");
    part.assume("responses larger than the socket buffer are not judged by the flush probe (the statement exempts them)");
    let mut cfgs = vec![];
    // A: one client, request split mid-line, body split from head, two pipelined in one chunk
    let mut script = split_at(tagged_get(0, 0), 9);
    script.extend(split_at(tagged_put(0, 1, b"hello"), tagged_put(0, 1, b"hello").len() - 5));
    let mut both = tagged_get(0, 2);
    both.extend_from_slice(&tagged_put(0, 3, b"xy"));
    script.push(both);
    let mut a = SrvCfg::base("C08", "one client: split line, split body, pipelined pair", vec![ClientCfg::well_behaved(script)]);
    a.closure_all = true;
    a.flush_probe = true;
    a.max_outstanding_for_respond = 3;
    cfgs.push(a.clone());
    {
        // the same clients served by a process whose descriptor 0 is free (the first accepted
        // connection is descriptor 0)
        let mut z = a;
        z.label = "one client: split line, split body, pipelined pair; descriptor 0 free in the process".into();
        z.free_fd0 = true;
        cfgs.push(z);
    }
    // B: two clients, out-of-order responses across connections
    let mut pair = tagged_get(1, 0);
    pair.extend_from_slice(&tagged_get(1, 1));
    let mut b = SrvCfg::base("C08", "two clients: whole requests vs pipelined pair, any response order", vec![ClientCfg::well_behaved(vec![tagged_get(0, 0), tagged_put(0, 1, b"abc")]), ClientCfg::well_behaved(vec![pair])]);
    b.closure_all = true;
    b.flush_probe = true;
    b.orders = Orders::AscRev;
    cfgs.push(b);
    // C: Expect head, body withheld, then body; followed by a plain request
    let mut c = SrvCfg::base("C08", "expect-continue: head, then body, then another request", vec![ClientCfg::well_behaved(vec![tagged_expect_head(0, 0, 4), b"body".to_vec(), tagged_get(0, 1)])]);
    c.closure_all = true;
    c.flush_probe = true;
    cfgs.push(c);
    // D: response larger than the socket buffer, partial reads by the client
    let mut cl = ClientCfg::well_behaved(vec![tagged_get(0, 0), tagged_get(0, 1)]);
    cl.partial_recv = true;
    let mut d = SrvCfg::base("C08", "12 KiB responses through a minimal SO_SNDBUF, client reads 1 KiB at a time", vec![cl]);
    d.resp_sizes = vec![5, 12000];
    d.small_sndbuf = true;
    d.closure_all = true;
    d.flush_probe = true;
    cfgs.push(d);
    {
        // D2: a response that needs a second write of a few hundred bytes: remainder in flight
        let cl = ClientCfg::well_behaved(vec![tagged_get(0, 0), tagged_get(0, 1)]);
        let mut d2 = SrvCfg::base("C08", "5000-byte responses through a minimal SO_SNDBUF: in-flight remainder that fits once the client has read", vec![cl]);
        d2.resp_sizes = vec![5, 5000];
        d2.small_sndbuf = true;
        d2.closure_all = true;
        d2.flush_probe = true;
        cfgs.push(d2);
        // F: a body of exactly the payload limit, then a pipelined request
        let mut s = tagged_put(0, 0, &vec![b'x'; 51200]);
        s.extend_from_slice(&tagged_get(0, 1));
        let mut f = SrvCfg::base("C08", "a body of exactly the default payload limit (51200 bytes) followed by a pipelined request", vec![ClientCfg::well_behaved(vec![s])]);
        f.closure_all = true;
        f.max_depth = 80;
        cfgs.push(f);
    }
    {
        // G: a header line of exactly the line limit, cut between its CR and its LF
        let bs = crate::connx::buffer_size();
        let mut head = b"GET /c0/r0 HTTP/1.1\r\n".to_vec();
        let mut line = b"X-fill: ".to_vec();
        line.extend(std::iter::repeat(b'v').take(bs - 2 - line.len()));
        line.extend_from_slice(b"\r\n");
        let cut = head.len() + line.len() - 1;
        head.extend_from_slice(&line);
        head.extend_from_slice(b"\r\n");
        let mut g = SrvCfg::base("C08", "a header line of exactly the line limit, cut between CR and LF (request line in an earlier segment)", vec![ClientCfg::well_behaved(vec![head[..22].to_vec(), head[22..cut].to_vec(), head[cut..].to_vec(), tagged_get(0, 1)])]);
        g.closure_all = true;
        cfgs.push(g);
    }
    if thorough {
        let mut pair2 = tagged_get(2, 0);
        pair2.extend_from_slice(&tagged_put(2, 1, b"zz"));
        let mut e = SrvCfg::base(
            "C08",
            "three clients: split request, expect-continue, pipelined pair; two response sizes",
            vec![ClientCfg::well_behaved(split_at(tagged_get(0, 0), 5)), ClientCfg::well_behaved(vec![tagged_expect_head(1, 0, 2), b"ok".to_vec()]), ClientCfg::well_behaved(vec![pair2])],
        );
        e.closure_all = true;
        e.flush_probe = true;
        e.orders = Orders::AscRev;
        e.resp_sizes = vec![5, 9000];
        e.small_sndbuf = true;
        cfgs.push(e);
    }
    for cfg in cfgs {
        explore(&mut part, &cfg, if thorough { 3_000_000 } else { 400_000 }, if thorough { 2400.0 } else { 100.0 });
        if cfg.clients.len() == 1 && part.violations.is_empty() {
            companion(&mut part, &cfg, if thorough { 18 } else { 13 });
        }
    }
    run_matrix(&mut part, "C08", thorough);
    vec![part]
}

pub fn c07(thorough: bool) -> Vec<Part> {
    if small_build() {
        return vec![];
    }
    let mut part = Part::new("C07", "server-attribution-r", "model_checking");
    part.assume("clients connect, send tagged requests, close, half-close and drain in any order while the application responds to any outstanding request at any time; client sockets are created up front and a closed client descriptor is replaced in place by a placeholder, so the only free descriptor numbers are those the server released and the next accept is forced to reuse them; in every state every byte a client has received must belong to a well-formed response that is the application's response to one of that client's own requests (at most once, in supply order) or a server reply justified by the client's own input");
    let mk = |n: usize, reqs: usize, shut: bool| -> Vec<ClientCfg> {
        (0..n)
            .map(|c| {
                let mut script = vec![];
                for k in 0..reqs {
                    script.push(tagged_get(c, k));
                }
                let mut cl = ClientCfg::adversary(script);
                cl.reads = true;
                cl.can_shut_rd = false;
                cl.can_shut_wr = shut;
                cl
            })
            .collect()
    };
    let mut a = SrvCfg::base("C07", "three clients, one request each, close at any time, forced descriptor reuse", mk(3, 1, false));
    a.orders = Orders::Asc;
    a.max_outstanding_for_respond = 3;
    let mut cfgs = vec![a];
    let mut pair = tagged_get(0, 0);
    pair.extend_from_slice(&tagged_get(0, 1));
    let mut c0 = ClientCfg::adversary(vec![pair]);
    c0.reads = true;
    c0.can_shut_rd = false;
    c0.can_shut_wr = false;
    let mut c1 = ClientCfg::adversary(vec![tagged_get(1, 0)]);
    c1.reads = true;
    c1.can_shut_rd = false;
    c1.can_shut_wr = false;
    let mut b = SrvCfg::base("C07", "pipelined pair vs late connecting client, responses in any order, flush_outgoing_writes at any time", vec![c0, c1]);
    b.orders = Orders::AscRev;
    b.flush_action = true;
    cfgs.push(b);
    {
        // a pipelined pair whose client shuts down its read side (the next write to it fails while
        // an answer is still owed) and then leaves; a late client takes the freed descriptor
        let mut pair = tagged_get(0, 0);
        pair.extend_from_slice(&tagged_get(0, 1));
        let mut s0 = ClientCfg::adversary(vec![pair]);
        s0.reads = false;
        s0.can_shut_rd = true;
        s0.can_shut_wr = false;
        let mut s1 = ClientCfg::adversary(vec![tagged_get(1, 0)]);
        s1.reads = true;
        s1.can_close = false;
        s1.can_shut_rd = false;
        s1.can_shut_wr = false;
        let mut scfg = SrvCfg::base("C07", "pipelined pair, shutdown(RD) then close with an answer owed after a failed write; late client on the freed descriptor", vec![s0, s1]);
        scfg.max_outstanding_for_respond = 2;
        cfgs.push(scfg);
    }
    {
        // three pipelined requests of one client + a second client: batches of answers through
        // enqueue_responses must arrive in supply order
        let mut triple = tagged_get(0, 0);
        triple.extend_from_slice(&tagged_get(0, 1));
        triple.extend_from_slice(&tagged_get(0, 2));
        let mut t0 = ClientCfg::adversary(vec![triple]);
        t0.reads = true;
        t0.can_close = false;
        t0.can_shut_rd = false;
        t0.can_shut_wr = false;
        let mut t1 = ClientCfg::adversary(vec![tagged_get(1, 0), tagged_get(1, 1)]);
        t1.reads = true;
        t1.can_close = false;
        t1.can_shut_rd = false;
        t1.can_shut_wr = false;
        let mut tcfg = SrvCfg::base("C07", "three pipelined requests + second client, answers supplied one by one or as one batch", vec![t0, t1]);
        tcfg.max_outstanding_for_respond = 2;
        cfgs.push(tcfg);
    }
    {
        // a client with a request in flight sends garbage (answered 400), closes; late client
        let mut g0 = ClientCfg::adversary(vec![tagged_get(0, 0), b"BAD LINE\r\n".to_vec()]);
        g0.reads = true;
        g0.can_shut_rd = false;
        g0.can_shut_wr = false;
        let mut g1 = ClientCfg::adversary(vec![tagged_get(1, 0)]);
        g1.reads = true;
        g1.can_close = false;
        g1.can_shut_rd = false;
        g1.can_shut_wr = false;
        let g = SrvCfg::base("C07", "request in flight, then garbage (400), close; late client reusing the descriptor", vec![g0, g1]);
        cfgs.push(g);
    }
    {
        // a read that yields a request AND leaves an interim 100 queued, then close + reuse
        let mut seg = tagged_get(0, 1);
        seg.extend_from_slice(&tagged_expect_head(0, 2, 3));
        let mut c0 = ClientCfg::adversary(vec![tagged_get(0, 0), seg, b"abc".to_vec()]);
        c0.reads = true;
        c0.can_shut_rd = false;
        c0.can_shut_wr = false;
        let mut c1 = ClientCfg::adversary(vec![tagged_get(1, 0)]);
        c1.reads = true;
        c1.can_close = false;
        c1.can_shut_rd = false;
        c1.can_shut_wr = false;
        let mut e = SrvCfg::base("C07", "request + Expect head in one segment, close, late client reusing the descriptor", vec![c0, c1]);
        e.max_outstanding_for_respond = 3;
        cfgs.push(e);
        // responses that need three or more writes each (minimal SO_SNDBUF), two clients
        let mk2 = |c: usize| {
            let mut cl = ClientCfg::adversary(vec![tagged_get(c, 0)]);
            cl.reads = true;
            cl.partial_recv = true;
            cl.can_shut_rd = false;
            cl.can_shut_wr = false;
            cl
        };
        let mut l = SrvCfg::base("C07", "14 KiB responses through a minimal SO_SNDBUF (three or more writes each), clients read 1 KiB at a time and may close", vec![mk2(0), mk2(1)]);
        l.resp_sizes = vec![14000];
        l.small_sndbuf = true;
        cfgs.push(l);
    }
    {
        // at capacity: 9 idle connections, a client that closes with a request in flight and a
        // late connecting client
        let mut clients = vec![];
        for _ in 0..9 {
            clients.push(ClientCfg::filler());
        }
        for c in 9..11 {
            let mut cl = ClientCfg::adversary(vec![tagged_get(c, 0)]);
            cl.reads = true;
            cl.can_shut_rd = false;
            cl.can_shut_wr = false;
            clients.push(cl);
        }
        let mut cap = SrvCfg::base("C07", "at capacity: 9 idle connections + closing client with a request in flight + late client", clients);
        cap.orders = Orders::AscRev;
        cfgs.push(cap);
    }
    if thorough {
        let mut t = SrvCfg::base("C07", "four clients, one request each, close/half-close at any time", mk(4, 1, true));
        t.max_outstanding_for_respond = 4;
        cfgs.push(t);
        let mut t2 = SrvCfg::base("C07", "three clients, two requests each", mk(3, 2, false));
        t2.orders = Orders::AscRev;
        cfgs.push(t2);
    }
    for cfg in cfgs {
        let req: &[&str] = if cfg.label.starts_with("request + Expect") {
            &["interim_100_received_by_client", "client_closed_with_request_in_flight"]
        } else if cfg.label.starts_with("14 KiB") {
            &["response_needed_several_writes(short_write)"]
        } else if cfg.label.starts_with("at capacity") {
            &["ten_connections_open", "client_closed_with_request_in_flight", "respond_after_client_closed"]
        } else if cfg.label.starts_with("three clients, one request") || cfg.label.starts_with("four clients") {
            &["accept_reused_descriptor_number_of_released_connection", "accept_reused_number_while_request_of_previous_owner_outstanding", "respond_after_client_closed", "client_closed_with_request_in_flight"]
        } else {
            &["respond_out_of_yield_order"]
        };
        explore_req(&mut part, &cfg, if thorough { 4_000_000 } else { 500_000 }, if thorough { 2400.0 } else { 120.0 }, req);
    }
    {
        // a pair of requests answered with a >= 4096-byte response and then a small one
        let mut pair = tagged_get(0, 0);
        pair.extend_from_slice(&tagged_get(0, 1));
        let mut c0 = ClientCfg::adversary(vec![pair, tagged_get(0, 2)]);
        c0.reads = true;
        c0.can_close = false;
        c0.can_shut_rd = false;
        c0.can_shut_wr = false;
        let mut big = SrvCfg::base("C07", "three requests of one client answered with 4200-byte and 5-byte responses in any mix", vec![c0]);
        big.resp_sizes = vec![4200, 5];
        big.max_outstanding_for_respond = 2;
        explore(&mut part, &big, 200_000, 60.0);
    }
    {
        // a request in flight, then a valid request and garbage in ONE segment (the valid one is
        // dropped with the 400), close; late client reusing the descriptor; late answer
        let mut seg = tagged_get(0, 1);
        seg.extend_from_slice(b"BAD LINE\r\n");
        let mut g0 = ClientCfg::adversary(vec![tagged_get(0, 0), seg]);
        g0.reads = true;
        g0.can_shut_rd = false;
        g0.can_shut_wr = false;
        let mut g1 = ClientCfg::adversary(vec![tagged_get(1, 0)]);
        g1.reads = true;
        g1.can_close = false;
        g1.can_shut_rd = false;
        g1.can_shut_wr = false;
        let g = SrvCfg::base("C07", "request in flight, then valid request + garbage in one segment, close; late client reusing the descriptor", vec![g0, g1]);
        explore(&mut part, &g, 300_000, 60.0);
        // short writes with a further response queued behind the one in flight
        let mut pair = tagged_get(0, 0);
        pair.extend_from_slice(&tagged_get(0, 1));
        let mut c0 = ClientCfg::adversary(vec![pair]);
        c0.reads = true;
        c0.partial_recv = true;
        c0.can_close = false;
        c0.can_shut_rd = false;
        c0.can_shut_wr = false;
        let mut sw = SrvCfg::base("C07", "pipelined pair answered with 9000-byte / 5-byte responses through a minimal SO_SNDBUF (a response queued behind one in flight)", vec![c0]);
        sw.resp_sizes = vec![9000, 5];
        sw.small_sndbuf = true;
        sw.max_outstanding_for_respond = 2;
        explore(&mut part, &sw, 300_000, 60.0);
    }
    if part.violations.is_empty() {
        // long histories: a connection that closed with a request in flight is polled 40 / 300
        // more times before a newcomer is accepted and the stale request is answered
        for polls in [40usize, 300] {
            let mk = |c: usize| {
                let mut cl = ClientCfg::adversary(vec![tagged_get(c, 0)]);
                cl.reads = true;
                cl.can_shut_rd = false;
                cl.can_shut_wr = false;
                cl
            };
            let mut cfg = SrvCfg::base("C07", &format!("scripted: close with a request in flight, {} further polls, newcomer on the freed descriptor, late answer", polls), vec![mk(0), mk(1), mk(2)]);
            cfg.max_depth = 1000;
            let mut path = vec![SAct::Connect(0), SAct::Poll(0), SAct::Connect(1), SAct::Poll(0), SAct::Send(0), SAct::Send(1), SAct::Poll(0), SAct::Close(0)];
            path.extend(rep(SAct::Poll(0), polls));
            path.extend([SAct::Connect(2), SAct::Poll(0), SAct::Poll(0), SAct::Respond(0, 0), SAct::Poll(0), SAct::Poll(0), SAct::Recv(2, 0), SAct::Send(2), SAct::Poll(0), SAct::Respond(0, 0), SAct::Respond(0, 0), SAct::Poll(0), SAct::Poll(0), SAct::Recv(2, 0), SAct::Recv(1, 0)]);
            let from = 8 + polls.saturating_sub(2);
            histories(&mut part, &cfg, path, from);
        }
    }
    if part.violations.is_empty() {
        // large batches handed over in one enqueue_responses() call, alternating between clients
        for per_client in [9usize, 17, 20, 33] {
            let flood = |c: usize| {
                let mut v = vec![];
                for k in 0..per_client {
                    v.extend_from_slice(&tagged_get(c, k));
                }
                let mut cl = ClientCfg::well_behaved(vec![v]);
                cl.reads = true;
                cl
            };
            let mut cfg = SrvCfg::base("C07", &format!("scripted: three clients pipelining {} requests each, all answered in one alternating batch", per_client), vec![flood(0), flood(1), flood(2)]);
            cfg.max_depth = 1000;
            let path = vec![SAct::Connect(0), SAct::Poll(0), SAct::Connect(1), SAct::Poll(0), SAct::Connect(2), SAct::Poll(0), SAct::Send(0), SAct::Send(1), SAct::Send(2), SAct::Poll(0), SAct::RespondAll(0x80), SAct::Poll(0), SAct::Poll(0), SAct::Recv(0, 0), SAct::Recv(1, 0), SAct::Recv(2, 0), SAct::Poll(0), SAct::Recv(0, 0), SAct::Recv(1, 0), SAct::Recv(2, 0)];
            histories(&mut part, &cfg, path, 10);
        }
    }
    run_matrix(&mut part, "C07", thorough);
    vec![part]
}

fn witness(idx: usize) -> ClientCfg {
    ClientCfg::well_behaved(vec![tagged_get(idx, 0)])
}

pub fn c09(thorough: bool) -> Vec<Part> {
    if small_build() {
        return vec![];
    }
    let mut part = Part::new("C09", "server-adversaries-r", "model_checking");
    part.assume("adversary clients run any sequence of {send valid pair / garbage / partial / oversized chunk, shutdown(RD), shutdown(WR), close} and never read, interleaved with polling and with the application answering their requests at any point or never; in every state requests() must return normally; from every state a fresh witness client must complete a round trip while the adversaries' requests stay unanswered; after the application has answered everything, connections whose client closed or half-closed must be gone from the descriptor table");
    part.assume("spinning while a dead connection waits for the application's answer is not asserted against (the property does not forbid it); a connection whose client only shut down its read side may or may not be released (the server cannot know before it writes)");
    let mut pair = tagged_get(0, 0);
    pair.extend_from_slice(&tagged_get(0, 1));
    let mut cfgs = vec![];
    let mut a = SrvCfg::base("C09", "adversary: pipelined pair then garbage; witness", vec![ClientCfg::adversary(vec![pair.clone(), b"BAD LINE\r\n".to_vec()]), witness(1)]);
    a.closure_witness = true;
    a.release_check = true;
    a.orders = Orders::AscRev;
    cfgs.push(a);
    let mut b = SrvCfg::base(
        "C09",
        "adversary: partial request then oversized declaration; witness",
        vec![ClientCfg::adversary(vec![b"GET /c0/r0 HT".to_vec(), b"TP/1.1\r\nContent-Length: 99999999\r\n\r\n".to_vec()]), witness(1)],
    );
    b.closure_witness = true;
    b.release_check = true;
    cfgs.push(b);
    let mut adv_reader = ClientCfg::adversary(vec![tagged_get(0, 0), tagged_get(0, 1)]);
    adv_reader.reads = true;
    let mut c = SrvCfg::base("C09", "adversary that reads: two requests, large responses, small SO_SNDBUF; witness", vec![adv_reader, witness(1)]);
    c.closure_witness = true;
    c.release_check = true;
    c.resp_sizes = vec![5, 12000];
    c.small_sndbuf = true;
    cfgs.push(c);
    {
        // the witness is already connected: its request and an adversary's pipelined pair can
        // become readable in the same batch (in either order)
        let mut w = witness(1);
        w.preconnected = true;
        let mut p = SrvCfg::base("C09", "adversary: pipelined pair then garbage; witness already connected", vec![ClientCfg::adversary(vec![pair.clone(), b"BAD LINE\r\n".to_vec()]), w]);
        p.closure_witness = true;
        p.release_check = true;
        cfgs.push(p);
    }
    {
        // at capacity: a further client connects and may leave before the server handles it
        let mut clients = vec![];
        for _ in 0..10 {
            clients.push(ClientCfg::filler());
        }
        let mut late = ClientCfg::adversary(vec![tagged_get(10, 0)]);
        late.can_shut_rd = false;
        late.can_shut_wr = false;
        clients.push(late);
        let mut cap = SrvCfg::base("C09", "at capacity: an 11th client connects, sends, closes at any time", clients);
        cap.release_check = true;
        cap.orders = Orders::AscRev;
        cfgs.push(cap);
    }
    {
        // two clients that stop reading, one request each: both writes fail in the same batch
        let mk = |c: usize| {
            let mut a = ClientCfg::adversary(vec![tagged_get(c, 0)]);
            a.can_close = false;
            a.can_shut_wr = false;
            a
        };
        let mut d = SrvCfg::base("C09", "two clients that shut down their read side, one request each; witness", vec![mk(0), mk(1), witness(2)]);
        d.closure_witness = true;
        d.release_check = true;
        d.orders = Orders::AscRev;
        cfgs.push(d);
    }
    if thorough {
        let mut pair1 = tagged_get(1, 0);
        pair1.extend_from_slice(&tagged_get(1, 1));
        let mut t = SrvCfg::base(
            "C09",
            "two adversaries (pair+garbage, pair) and a witness",
            vec![ClientCfg::adversary(vec![pair.clone(), b"BAD LINE\r\n".to_vec()]), ClientCfg::adversary(vec![pair1]), witness(2)],
        );
        t.closure_witness = true;
        t.release_check = true;
        cfgs.push(t);
    }
    for (i, cfg) in cfgs.iter().enumerate() {
        explore(&mut part, cfg, if thorough { 4_000_000 } else { 500_000 }, if thorough { 2400.0 } else { 120.0 });
        if i == 0 && part.violations.is_empty() {
            companion(&mut part, cfg, if thorough { 12 } else { 9 });
        }
    }
    if part.violations.is_empty() {
        // flood: two clients with a full read's worth of pipelined requests each + the witness
        let flood = |c: usize| {
            let mut v = vec![];
            for k in 0..40 {
                v.extend_from_slice(&tagged_get(c, k));
            }
            let mut a = ClientCfg::adversary(vec![v]);
            a.can_close = false;
            a.can_shut_rd = false;
            a.can_shut_wr = false;
            a
        };
        let mut f = SrvCfg::base("C09", "flood: two clients pipelining 40 requests each in one segment; witness", vec![flood(0), flood(1), { let mut w = witness(2); w.preconnected = true; w }]);
        f.closure_witness = true;
        f.max_depth = if thorough { 40 } else { 10 };
        f.max_outstanding_for_respond = 1;
        f.respond_any = false;
        f.orders = Orders::AscRev;
        explore(&mut part, &f, 100_000, if thorough { 300.0 } else { 30.0 });
    }
    if part.violations.is_empty() {
        // long history: a client that closed with an unanswered request is reported by 300 polls
        let mut a = ClientCfg::adversary(vec![tagged_get(0, 0)]);
        a.can_shut_rd = false;
        a.can_shut_wr = false;
        let mut cfg = SrvCfg::base("C09", "scripted: close with a request in flight, 300 further polls; witness", vec![a, witness(1)]);
        cfg.closure_witness = true;
        cfg.release_check = true;
        cfg.max_depth = 1000;
        let mut path = vec![SAct::Connect(0), SAct::Poll(0), SAct::Send(0), SAct::Poll(0), SAct::Close(0)];
        path.extend(rep(SAct::Poll(0), 300));
        path.extend([SAct::Respond(0, 0), SAct::Poll(0)]);
        histories(&mut part, &cfg, path, 4);
    }
    if part.violations.is_empty() {
        // long history: one client pipelines 200 requests over five segments and is never answered;
        // polling keeps returning normally and the witness is served at every prefix
        let mut script = vec![];
        for seg in 0..5 {
            let mut v = vec![];
            for k in 0..40 {
                v.extend_from_slice(&tagged_get(0, seg * 40 + k));
            }
            script.push(v);
        }
        let mut a = ClientCfg::adversary(script);
        a.can_close = false;
        a.can_shut_rd = false;
        a.can_shut_wr = false;
        let mut cfg = SrvCfg::base("C09", "scripted: 200 pipelined requests on one connection, never answered; witness", vec![a, witness(1)]);
        cfg.closure_witness = true;
        cfg.max_depth = 1000;
        let mut path = vec![SAct::Connect(0), SAct::Poll(0)];
        for _ in 0..5 {
            path.push(SAct::Send(0));
            path.extend(rep(SAct::Poll(0), 3));
        }
        histories(&mut part, &cfg, path, 3);
    }
    run_matrix(&mut part, "C09", thorough);
    vec![part]
}

pub fn c10(thorough: bool) -> Vec<Part> {
    if small_build() {
        return vec![];
    }
    let mut part = Part::new("C10", "server-capacity-r", "model_checking");
    part.assume("seed: N idle connections (N = 8, 9) plus one well-behaved established connection with a request to send; 2 (3 thorough) further clients may connect, send a request, close at any time; every batch order enumerated through the H4 seam where the batch is small, ascending/descending otherwise; in every state: at most 10 connections, descriptor accounting (descriptors held by the server = listener + epoll + one per connection in its table); a client connecting at capacity reads exactly the fixed 503 message then EOF/ECONNRESET; from every state the established client still completes its round trip and, after the application answered everything, the server holds exactly listener + epoll + one descriptor per still-open client");
    part.assume("'connecting while 10 are open' is judged at the moment the server handles the listener event (connections closed in the same readiness batch are reaped at the end of that call)");
    let mut cfgs = vec![];
    for fill in [8usize, 9] {
        let mut clients = vec![];
        let mut est = ClientCfg::well_behaved(vec![tagged_get(0, 0)]);
        est.preconnected = true;
        clients.push(est);
        for _ in 0..fill {
            clients.push(ClientCfg::filler());
        }
        let nact = if thorough { 3 } else { 2 };
        for j in 0..nact {
            let idx = 1 + fill + j;
            // the second active client pipelines a valid request with garbage in one segment
            let script = if j == 1 {
                let mut v = tagged_get(idx, 0);
                v.extend_from_slice(b"BAD LINE\r\n");
                vec![v]
            } else {
                vec![tagged_get(idx, 0)]
            };
            let mut a = ClientCfg::adversary(script);
            a.reads = true;
            a.can_shut_rd = false;
            a.can_shut_wr = false;
            clients.push(a);
        }
        let mut cfg = SrvCfg::base("C10", &format!("{} established connections + {} clients connecting/sending/closing", fill + 1, nact), clients);
        cfg.closure_all = true;
        cfg.release_check = true;
        cfg.orders = if fill == 9 { Orders::Full } else { Orders::AscRev };
        cfg.max_outstanding_for_respond = 2;
        cfgs.push(cfg);
    }
    if thorough {
        // fill/drain cycles: established idle connections may close at any time, late clients
        // take over the freed slots (and descriptor numbers), again and again
        let mut clients = vec![];
        let mut est = ClientCfg::well_behaved(vec![tagged_get(0, 0)]);
        est.preconnected = true;
        clients.push(est);
        for _ in 0..7 {
            clients.push(ClientCfg::filler());
        }
        for _ in 0..2 {
            let mut idle = ClientCfg::adversary(vec![]);
            idle.preconnected = true;
            idle.can_shut_rd = false;
            idle.can_shut_wr = false;
            idle.reads = true;
            clients.push(idle);
        }
        for j in 0..3 {
            let idx = 10 + j;
            let mut a = ClientCfg::adversary(vec![tagged_get(idx, 0)]);
            a.reads = true;
            a.can_shut_rd = false;
            a.can_shut_wr = false;
            clients.push(a);
        }
        let mut cfg = SrvCfg::base("C10", "fill/drain: 10 established (2 may close) + 3 late clients connecting/sending/closing", clients);
        cfg.closure_all = true;
        cfg.release_check = true;
        cfg.orders = Orders::AscRev;
        cfg.max_outstanding_for_respond = 2;
        explore_req(&mut part, &cfg, 3_000_000, 1500.0, &["client_connected_at_capacity_and_was_refused", "ten_connections_open", "accept_reused_descriptor_number_of_released_connection"]);
    }
    {
        // connections that die while a response is staged (short write under a minimal SO_SNDBUF)
        let mut clients = vec![];
        let mut est = ClientCfg::well_behaved(vec![tagged_get(0, 0)]);
        est.preconnected = true;
        clients.push(est);
        for c in 1..3 {
            // the non-reading client pipelines two requests in one segment
            let script = if c == 2 {
                let mut v = tagged_get(c, 0);
                v.extend_from_slice(&tagged_get(c, 1));
                vec![v]
            } else {
                vec![tagged_get(c, 0)]
            };
            let mut a = ClientCfg::adversary(script);
            a.reads = c == 1;
            a.can_shut_rd = c == 2;
            a.can_shut_wr = false;
            clients.push(a);
        }
        let mut cfg = SrvCfg::base("C10", "connections dying with a partially written 12 KiB response (small SO_SNDBUF): close / shutdown(RD) at any time", clients);
        cfg.resp_sizes = vec![12000];
        cfg.small_sndbuf = true;
        cfg.release_check = true;
        cfg.max_outstanding_for_respond = 3;
        explore_req(&mut part, &cfg, if thorough { 2_000_000 } else { 300_000 }, if thorough { 1200.0 } else { 100.0 }, &["response_needed_several_writes(short_write)", "client_shutdown_rd", "respond_after_client_closed"]);
    }
    {
        // three requests in flight, the client stops reading, answers arrive one by one or as
        // one enqueue_responses batch: the connection must be reaped once all are absorbed
        let mut v = tagged_get(1, 0);
        v.extend_from_slice(&tagged_get(1, 1));
        v.extend_from_slice(&tagged_get(1, 2));
        let mut a = ClientCfg::adversary(vec![v]);
        a.can_close = false;
        a.can_shut_wr = false;
        let mut est = ClientCfg::well_behaved(vec![tagged_get(0, 0)]);
        est.preconnected = true;
        let mut cfg = SrvCfg::base("C10", "three requests in flight, shutdown(RD), answers singly or as a batch", vec![est, a]);
        cfg.release_check = true;
        cfg.closure_all = true;
        cfg.flush_action = true;
        cfg.max_outstanding_for_respond = 3;
        explore_req(&mut part, &cfg, 300_000, if thorough { 600.0 } else { 60.0 }, &["client_shutdown_rd", "two_requests_yielded_by_one_poll"]);
    }
    {
        // a client that sends an Expect head (interim response queued) and hangs up before it is
        // written; and one that does so after a complete request
        let mut est = ClientCfg::well_behaved(vec![tagged_get(0, 0)]);
        est.preconnected = true;
        let mut seg = tagged_get(2, 0);
        seg.extend_from_slice(&tagged_expect_head(2, 1, 3));
        let mk = |script: Vec<Vec<u8>>| {
            let mut a = ClientCfg::adversary(script);
            a.can_shut_rd = false;
            a.can_shut_wr = false;
            a
        };
        let mut cfg = SrvCfg::base("C10", "clients hanging up with an unwritten interim response (Expect head alone / behind a complete request)", vec![est, mk(vec![tagged_expect_head(1, 0, 3)]), mk(vec![seg])]);
        cfg.release_check = true;
        cfg.closure_all = true;
        cfg.max_outstanding_for_respond = 2;
        explore(&mut part, &cfg, 300_000, if thorough { 600.0 } else { 40.0 });
    }
    {
        // a client that half-closes (shutdown WR) at any time, also with an answer supplied but not yet written
        let mut est = ClientCfg::well_behaved(vec![tagged_get(0, 0)]);
        est.preconnected = true;
        let mut a = ClientCfg::adversary(vec![tagged_get(1, 0), tagged_get(1, 1)]);
        a.can_close = false;
        a.can_shut_rd = false;
        a.can_shut_wr = true;
        a.reads = true;
        let mut cfg = SrvCfg::base("C10", "a client that shuts down its write side at any time (answers supplied before / after)", vec![est, a]);
        cfg.release_check = true;
        cfg.closure_all = true;
        cfg.max_outstanding_for_respond = 2;
        explore(&mut part, &cfg, 300_000, if thorough { 600.0 } else { 40.0 });
    }
    for cfg in cfgs {
        let req: &[&str] = if cfg.label.starts_with("10 established") {
            &["client_connected_at_capacity_and_was_refused", "ten_connections_open", "poll_with_nonascending_order"]
        } else {
            &["client_connected_at_capacity_and_was_refused", "ten_connections_open", "accept_reused_descriptor_number_of_released_connection", "poll_with_nonascending_order"]
        };
        explore_req(&mut part, &cfg, if thorough { 4_000_000 } else { 400_000 }, if thorough { 2400.0 } else { 150.0 }, req);
    }
    vec![part]
}

pub fn c18(thorough: bool) -> Vec<Part> {
    if small_build() {
        return vec![];
    }
    let mut part = Part::new("C18", "server-killswitch-r", "model_checking");
    part.assume("the C08/C10 alphabets with reduced budgets, server created with a kill switch; in EVERY explored state a Kill branch followed by up to 3 polls under every enumerated batch order: the epoll descriptor must be readable and requests() must return the shutdown indication each time; before Kill, the same history replayed on a server without kill switch must produce identical observations (yields, client bytes, readiness); seed `all_ready`: 10 connections with unread input + an 11th client waiting + kill switch signalled = 12 ready descriptors, all 12 'event j first' orders and descending order");
    let mut cfgs = vec![];
    let mut script = split_at(tagged_get(0, 0), 9);
    script.push(tagged_put(0, 1, b"hello"));
    let mut a = SrvCfg::base("C18", "one client (split request, body) + kill at every point", vec![ClientCfg::well_behaved(script)]);
    a.kill_switch = true;
    a.kill_action = true;
    a.twin_without_kill = true;
    a.orders = Orders::Full;
    cfgs.push(a);
    let mut adv = ClientCfg::adversary(vec![tagged_get(1, 0)]);
    adv.reads = true;
    adv.can_shut_rd = false;
    let mut b = SrvCfg::base("C18", "well-behaved client + closing client + kill at every point", vec![ClientCfg::well_behaved(vec![tagged_get(0, 0)]), adv]);
    b.kill_switch = true;
    b.kill_action = true;
    b.twin_without_kill = true;
    b.orders = Orders::Full;
    cfgs.push(b);
    {
        let mut late = SrvCfg::base("C18", "kill switch installed after start_server(): one client + kill at every point", vec![ClientCfg::well_behaved(vec![tagged_get(0, 0), tagged_get(0, 1)])]);
        late.kill_switch = true;
        late.kill_action = true;
        late.kill_switch_late = true;
        late.twin_without_kill = true;
        late.orders = Orders::Full;
        cfgs.push(late);
    }
    {
        // forty pipelined requests become readable before the kill switch is signalled
        let mut many = vec![];
        for k in 0..40 {
            many.extend_from_slice(&tagged_get(0, k));
        }
        let mut m = SrvCfg::base("C18", "forty pipelined requests in one segment + kill at every point", vec![ClientCfg::well_behaved(vec![many])]);
        m.kill_switch = true;
        m.kill_action = true;
        m.orders = Orders::Full;
        m.max_outstanding_for_respond = 1;
        m.respond_any = false;
        cfgs.push(m);
    }
    {
        // the kill switch is installed at any moment (its eventfd takes the lowest free number,
        // possibly one a released connection had); late duplicate answers for released
        // connections are handed in
        let mut quitter = ClientCfg::adversary(vec![tagged_get(0, 0)]);
        quitter.reads = true;
        quitter.can_shut_rd = false;
        quitter.can_shut_wr = false;
        let mut inst = SrvCfg::base("C18", "kill switch installed at any moment (descriptor numbers of released connections), late duplicate answers, kill at every point", vec![quitter, ClientCfg::well_behaved(vec![tagged_get(1, 0)])]);
        inst.kill_switch = true;
        inst.kill_switch_late = true;
        inst.kill_install_action = true;
        inst.kill_reinstall = true;
        inst.kill_action = true;
        inst.late_duplicates = true;
        inst.twin_without_kill = true;
        inst.orders = Orders::AscRev;
        cfgs.push(inst);
    }
    // all_ready seed
    let mut clients = vec![];
    for c in 0..10 {
        let mut cl = ClientCfg::well_behaved(vec![tagged_get(c, 0)]);
        cl.preconnected = true;
        cl.presend = 1;
        clients.push(cl);
    }
    let mut late = ClientCfg::well_behaved(vec![]);
    late.preconnect_no_accept = true;
    late.role = Role::Filler;
    clients.push(late);
    let mut c = SrvCfg::base("C18", "all_ready: 10 connections with unread input + waiting 11th client + kill signalled (12 ready descriptors)", clients);
    c.kill_switch = true;
    c.prekilled = true;
    c.orders = Orders::Full;
    cfgs.push(c);
    // at capacity with a refused client that already closed, then kill
    let mut clients = vec![];
    for _ in 0..9 {
        clients.push(ClientCfg::filler());
    }
    // one of the ten established connections may hang up (nothing outstanding) at any time
    let mut idle = ClientCfg::adversary(vec![]);
    idle.preconnected = true;
    idle.can_shut_rd = false;
    idle.can_shut_wr = false;
    idle.reads = true;
    clients.push(idle);
    let mut late = ClientCfg::adversary(vec![]);
    late.can_shut_rd = false;
    late.can_shut_wr = false;
    clients.push(late);
    let mut d = SrvCfg::base("C18", "at capacity: one established connection may hang up, an 11th client connects and may close before being handled; kill at every point", clients);
    d.kill_switch = true;
    d.kill_action = true;
    d.twin_without_kill = true;
    d.orders = Orders::AscRev;
    cfgs.push(d);
    if thorough {
        // three clients (split request / expect / closing pair) with kill at every point
        let mut pair2 = tagged_get(2, 0);
        pair2.extend_from_slice(&tagged_get(2, 1));
        let mut closer = ClientCfg::adversary(vec![pair2]);
        closer.reads = true;
        closer.can_shut_rd = false;
        let mut t = SrvCfg::base(
            "C18",
            "three clients (split request, expect, closing pair) + kill at every point",
            vec![ClientCfg::well_behaved(split_at(tagged_get(0, 0), 7)), ClientCfg::well_behaved(vec![tagged_expect_head(1, 0, 2), b"ok".to_vec()]), closer],
        );
        t.kill_switch = true;
        t.kill_action = true;
        t.twin_without_kill = true;
        t.orders = Orders::Full;
        t.max_outstanding_for_respond = 2;
        cfgs.push(t);
    }
    {
        // large responses under a minimal SO_SNDBUF (unsent output) + kill
        let mut big = ClientCfg::well_behaved(if thorough { vec![tagged_get(0, 0), tagged_get(0, 1)] } else { vec![tagged_get(0, 0)] });
        big.partial_recv = true;
        let mut u = SrvCfg::base("C18", "unsent 12 KiB output (minimal SO_SNDBUF) + kill at every point", vec![big]);
        u.kill_switch = true;
        u.kill_action = true;
        u.twin_without_kill = true;
        u.resp_sizes = vec![12000];
        u.small_sndbuf = true;
        u.orders = Orders::Full;
        cfgs.push(u);
    }
    if thorough {
        // at capacity with two late clients
        let mut clients = vec![];
        for _ in 0..9 {
            clients.push(ClientCfg::filler());
        }
        for c in 9..12 {
            let mut a = ClientCfg::adversary(vec![tagged_get(c, 0)]);
            a.reads = true;
            a.can_shut_rd = false;
            a.can_shut_wr = false;
            clients.push(a);
        }
        let mut v = SrvCfg::base("C18", "9 idle connections + three clients connecting/sending/closing around capacity + kill at every point", clients);
        v.kill_switch = true;
        v.kill_action = true;
        v.orders = Orders::AscRev;
        v.max_outstanding_for_respond = 2;
        cfgs.push(v);
    }
    for cfg in cfgs {
        explore(&mut part, &cfg, if thorough { 3_000_000 } else { 400_000 }, if thorough { 900.0 } else { 120.0 });
    }
    if part.violations.is_empty() {
        // long history: 3 connections closed with a request in flight, every other connection
        // and 3 late clients with unread input, then the kill switch
        let mut clients = vec![];
        for c in 0..13 {
            let mut cl = ClientCfg::adversary(vec![tagged_get(c, 0)]);
            cl.reads = true;
            cl.can_shut_rd = false;
            cl.can_shut_wr = false;
            clients.push(cl);
        }
        let mut cfg = SrvCfg::base("C18", "scripted: 3 closed connections with requests in flight + 7 connections and 3 late clients with unread input, then kill", clients);
        cfg.kill_switch = true;
        cfg.kill_action = true;
        cfg.max_depth = 1000;
        let mut path = vec![];
        for c in 0..10u8 {
            path.push(SAct::Connect(c));
            path.push(SAct::Poll(0));
        }
        path.extend([SAct::Send(0), SAct::Send(1), SAct::Send(2), SAct::Poll(0), SAct::Close(0), SAct::Close(1), SAct::Close(2), SAct::Poll(0)]);
        for c in 10..13u8 {
            path.push(SAct::Connect(c));
            path.push(SAct::Poll(0));
        }
        for c in 3..13u8 {
            path.push(SAct::Send(c));
        }
        let from = path.len();
        path.extend([SAct::Kill, SAct::Poll(0), SAct::Poll(1000), SAct::Poll(0)]);
        histories(&mut part, &cfg, path, from);
    }
    if part.violations.is_empty() {
        // long history: 320 requests of one connection yielded and never answered, one more
        // request unread, then the kill switch (the connection's event before or behind it)
        let mut script = vec![];
        for seg in 0..9 {
            let mut v = vec![];
            for k in 0..40 {
                v.extend_from_slice(&tagged_get(0, seg * 40 + k));
            }
            script.push(v);
        }
        let mut cl = ClientCfg::adversary(script);
        cl.can_close = false;
        cl.can_shut_rd = false;
        cl.can_shut_wr = false;
        for order in [0u16, 1000] {
            let mut cfg = SrvCfg::base("C18", "scripted: 320 unanswered requests of one connection, more input unread, then kill", vec![cl.clone()]);
            cfg.kill_switch = true;
            cfg.kill_action = true;
            cfg.max_depth = 1000;
            let mut path = vec![SAct::Connect(0), SAct::Poll(0)];
            for _ in 0..8 {
                path.push(SAct::Send(0));
                path.extend(rep(SAct::Poll(0), 3));
            }
            path.push(SAct::Send(0));
            let from = path.len();
            path.extend([SAct::Kill, SAct::Poll(order), SAct::Poll(1000 - order), SAct::Poll(order)]);
            histories(&mut part, &cfg, path, from);
        }
    }
    vec![part]
}

/// Server parts of C04, C11 and C13.
pub fn c04_server(thorough: bool) -> Part {
    let mut part = Part::new("C04", "server-limit-r", "model_checking");
    part.assume("server: histories SetLimit(L1) Connect(a) SetLimit(L2) Connect(b) Send...: each connection applies the limit in force when the server accepted it ('connected' = accepted, the only moment the server can observe) and a violation is answered with a 400 whose body reports both numbers");
    let body5 = b"hello";
    let mk = |c: usize| {
        let mut cl = ClientCfg::well_behaved(vec![tagged_put(c, 0, body5)]);
        cl.reads = true;
        cl
    };
    let mut cfg = SrvCfg::base("C04", "two clients declaring 5 bytes, limit switched among 4/5/6 at any time", vec![mk(0), mk(1)]);
    cfg.limits = if thorough { vec![4, 5, 6, 0] } else { vec![4, 5, 6] };
    cfg.closure_all = true;
    cfg.max_depth = if thorough { 14 } else { 12 };
    explore(&mut part, &cfg, if thorough { 3_000_000 } else { 300_000 }, if thorough { 1800.0 } else { 60.0 });
    {
        // a configured limit of zero is a limit like any other
        let mut z = SrvCfg::base("C04", "limit 0 / 5 switched at any time, one client declaring 5 bytes and one declaring none", vec![mk(0), ClientCfg::well_behaved(vec![tagged_get(1, 0)])]);
        z.limits = vec![0, 5];
        z.closure_all = true;
        z.max_depth = 11;
        explore(&mut part, &z, 300_000, if thorough { 600.0 } else { 40.0 });
    }
    {
        // a violation is answered whatever was rejected on the same connection before: rejected
        // requests one by one (each sent after the reply to the previous one has been read)
        let over = |c: usize, k: usize, n: usize| format!("PUT /c{}/r{} HTTP/1.1\r\nContent-Length: {}\r\n\r\n", c, k, n).into_bytes();
        let mk = |script: Vec<Vec<u8>>| {
            let mut cl = ClientCfg::adversary(script);
            cl.reads = true;
            cl.can_close = false;
            cl.can_shut_rd = false;
            cl.can_shut_wr = false;
            cl
        };
        let mut h = SrvCfg::base("C04", "rejected requests one by one on the same connection: malformed, over the limit, over the limit again", vec![mk(vec![b"get /c0/r0 HTTP/1.1\r\n\r\n".to_vec(), over(0, 1, 51201), over(0, 2, 70001)]), mk(vec![over(1, 0, 60000), b"GET /c1/r1 HTTP/1.1\r\nnocolon\r\n\r\n".to_vec(), over(1, 2, 51202)])]);
        h.chunk_replies = true;
        h.closure_all = true;
        h.max_depth = 24;
        explore(&mut part, &h, 300_000, if thorough { 600.0 } else { 50.0 });
    }
    // limits above the default: 60000 declared under 70000 is fine, 70001 is refused with (70000, 70001)
    let head = |c: usize, n: usize| vec![format!("PUT /c{}/r0 HTTP/1.1\r\nContent-Length: {}\r\n\r\n", c, n).into_bytes()];
    let mut cfg2 = SrvCfg::base("C04", "limit raised above the default (70000 / 51200): declared 60000 and 70001", vec![ClientCfg::well_behaved(head(0, 60000)), ClientCfg::well_behaved(head(1, 70001))]);
    cfg2.limits = vec![70000, 51200];
    cfg2.closure_all = true;
    cfg2.max_depth = 12;
    explore(&mut part, &cfg2, 300_000, if thorough { 600.0 } else { 60.0 });
    // an over-limit declaration right behind a complete Expect request in the same segment:
    // the 400 is due although an interim response is already queued
    let mut seg = tagged_expect_head(0, 0, 3);
    seg.extend_from_slice(b"abc");
    seg.extend_from_slice(b"PUT /c0/r1 HTTP/1.1\r\nContent-Length: 99999999\r\n\r\n");
    let mut seg2 = tagged_get(1, 0);
    seg2.extend_from_slice(b"PUT /c1/r1 HTTP/1.1\r\nContent-Length: 51201\r\n\r\n");
    let mut cfg3 = SrvCfg::base("C04", "over-limit declaration behind a complete Expect request / behind a plain request in one segment", vec![ClientCfg::well_behaved(vec![seg]), ClientCfg::well_behaved(vec![seg2])]);
    cfg3.closure_all = true;
    cfg3.max_depth = 14;
    explore(&mut part, &cfg3, 300_000, if thorough { 600.0 } else { 60.0 });
    part
}

pub fn c11_server(thorough: bool) -> Part {
    let mut part = Part::new("C11", "server-after-400-r", "model_checking");
    part.assume("server: a client sends malformed input followed by well-formed requests, chunk by chunk, interleaved with polling and draining; a request answered with 400 is never yielded; a well-formed request sent on its own after the server consumed the malformed input is yielded and answered");
    let mut cfgs = vec![];
    let mk = |label: &str, script: Vec<Vec<u8>>, never: Vec<(usize, usize)>, must: Vec<(usize, usize)>| {
        let mut cl = ClientCfg::adversary(script);
        cl.reads = true;
        cl.can_close = false;
        cl.can_shut_rd = false;
        cl.can_shut_wr = false;
        let mut cfg = SrvCfg::base("C11", label, vec![cl]);
        cfg.never_yield = never;
        cfg.must_yield_after = must;
        cfg.closure_c11 = true;
        cfg.yield_promptly = true;
        cfg
    };
    cfgs.push(mk("header line without colon, then blank line, then a valid request", vec![b"GET /c0/r0 HTTP/1.1\r\nnocolon\r\n".to_vec(), b"\r\n".to_vec(), tagged_get(0, 1)], vec![(0, 0)], vec![(0, 1)]));
    cfgs.push(mk("garbage split over two chunks, then a valid request", vec![b"BAD".to_vec(), b" LINE\r\n".to_vec(), tagged_get(0, 1)], vec![], vec![(0, 1)]));
    cfgs.push(mk("oversized declaration, would-be body, then a valid request", vec![b"PUT /c0/r0 HTTP/1.1\r\nContent-Length: 99999999\r\n\r\n".to_vec(), b"body".to_vec(), tagged_get(0, 1)], vec![(0, 0)], vec![]));
    {
        let mut good_then_bad = tagged_get(0, 0);
        good_then_bad.extend_from_slice(b"BAD LINE\r\n");
        cfgs.push(mk("valid request and garbage in one segment, then a valid request", vec![good_then_bad, tagged_get(0, 1)], vec![], vec![(0, 1)]));
    }
    {
        // nine malformed requests in a row, each in its own segment, then a valid request;
        // 9000 bytes of garbage in one segment (nine failing reads in a row), then a valid request
        let mut script: Vec<Vec<u8>> = (0..9).map(|i| format!("BAD LINE {}\r\n", i).into_bytes()).collect();
        script.push(tagged_get(0, 1));
        let mut c = mk("nine malformed requests in a row, then a valid request", script, vec![], vec![(0, 1)]);
        c.max_depth = 80;
        cfgs.push(c);
        // malformed input of exactly one buffer's length with a valid request right behind it
        let mut exact = b"BAD ".to_vec();
        exact.extend(std::iter::repeat(b'y').take(crate::connx::buffer_size() - 6));
        exact.extend_from_slice(b"\r\n");
        let mut both = exact.clone();
        both.extend_from_slice(&tagged_get(0, 2));
        cfgs.push(mk("malformed input of exactly the buffer size, then valid requests (next segment / same segment)", vec![exact, tagged_get(0, 1), both], vec![], vec![(0, 1)]));
        let mut junk = vec![b'x'; 9000];
        junk.extend_from_slice(b"\r\n");
        let mut c = mk("9000 bytes of garbage in one segment, then a valid request", vec![junk, tagged_get(0, 1)], vec![], vec![(0, 1)]);
        c.max_depth = 80;
        cfgs.push(c);
    }
    if thorough {
        let mut long = b"GET /c0/r0".to_vec();
        long.extend(std::iter::repeat(b'a').take(1100));
        long.extend_from_slice(b" HTTP/1.1\r\n\r\n");
        cfgs.push(mk("request line longer than the buffer, then a valid request", vec![long[..600].to_vec(), long[600..].to_vec(), tagged_get(0, 1)], vec![(0, 0)], vec![(0, 1)]));
    }
    for cfg in cfgs {
        explore(&mut part, &cfg, 500_000, if thorough { 900.0 } else { 60.0 });
    }
    part
}

pub fn c13_server(thorough: bool) -> Part {
    let mut part = Part::new("C13", "server-expect-r", "model_checking");
    part.assume("server: a client sends an Expect head and withholds the body; from every state fair completion must hand it the interim 100 response without the body having been sent; once the body arrives the request is yielded normally");
    let mut cfg = SrvCfg::base("C13", "expect head, body later; second request without expect", vec![ClientCfg::well_behaved(vec![tagged_expect_head(0, 0, 3), b"abc".to_vec(), tagged_put(0, 1, b"zz")])]);
    cfg.closure_all = true;
    explore(&mut part, &cfg, 500_000, if thorough { 900.0 } else { 60.0 });
    {
        // a client that sends an Expect head and hangs up before the 100 is written; the next
        // client (reusing the descriptor number) must still get its 100
        let mut quitter = ClientCfg::adversary(vec![tagged_expect_head(0, 0, 3)]);
        quitter.can_shut_rd = false;
        quitter.can_shut_wr = false;
        let late = ClientCfg::well_behaved(vec![tagged_expect_head(1, 0, 2), b"ok".to_vec()]);
        let mut cfg = SrvCfg::base("C13", "expect head then hang-up; late client with expect on the recycled descriptor", vec![quitter, late]);
        cfg.closure_all = true;
        explore(&mut part, &cfg, 500_000, if thorough { 900.0 } else { 60.0 });
        if part.violations.is_empty() {
            companion(&mut part, &cfg, if thorough { 11 } else { 9 });
        }
    }
    {
        // the Expect head arrives while an earlier request of the same connection is still
        // unanswered (or answered at any later moment): the 100 is due all the same
        let mut cfg = SrvCfg::base("C13", "plain request unanswered, then an expect head, body later", vec![ClientCfg::well_behaved(vec![tagged_get(0, 0), tagged_expect_head(0, 1, 3), b"abc".to_vec()])]);
        cfg.closure_all = true;
        explore(&mut part, &cfg, 500_000, if thorough { 900.0 } else { 60.0 });
    }
    if thorough {
        let mut cfg = SrvCfg::base(
            "C13",
            "two clients: expect (HTTP/1.1) and expect with zero length (no 100 due)",
            vec![ClientCfg::well_behaved(vec![tagged_expect_head(0, 0, 2), b"ok".to_vec()]), ClientCfg::well_behaved(vec![tagged_expect_head(1, 0, 0), tagged_get(1, 1)])],
        );
        cfg.closure_all = true;
        explore(&mut part, &cfg, 1_000_000, 1200.0);
    }
    part
}
