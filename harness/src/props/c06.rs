//! C06 — queued responses reach the stream completely, once, in order, under short writes.
use crate::connw::WCfg;
use crate::explore::{bfs, record, Limits};
use crate::props::small_build;
use crate::util::{workers, Part};

pub fn run(thorough: bool) -> Vec<Part> {
    if small_build() {
        return vec![];
    }
    let mut part = Part::new("C06", "write-path-r", "model_checking");
    part.assume("all interleavings of enqueue_response (menu: 100-Continue, 200 with small/medium body[, 8 KiB]) and try_write, the stream answering each write with every accepted length 1..offered, 0, EINTR, EAGAIN or EPIPE; at most N enqueues per path (N reported); continuation after discards included; reference = deque of the serialized responses");
    part.assume("EAGAIN from the stream counts as a non-interrupt error (the statement: 'zero bytes written or a non-interrupt error' discards everything)");
    let cfgs: Vec<WCfg> = if thorough {
        vec![
            WCfg { label: "3 enqueues, bodies 5/300, every length".into(), bodies: vec![5, 300], max_enqueues: 3, all_lengths: true },
            WCfg { label: "6 enqueues, bodies 0/5, every length".into(), bodies: vec![0, 5], max_enqueues: 6, all_lengths: false },
            WCfg { label: "2 enqueues, bodies 5/8192, every length".into(), bodies: vec![5, 8192], max_enqueues: 2, all_lengths: true },
            WCfg { label: "4 enqueues, bodies 5/300/8192, boundary lengths".into(), bodies: vec![5, 300, 8192], max_enqueues: 4, all_lengths: false },
        ]
    } else {
        vec![
            WCfg { label: "3 enqueues, bodies 5/40, every length".into(), bodies: vec![5, 40], max_enqueues: 3, all_lengths: true },
            WCfg { label: "4 enqueues, bodies 5/300, boundary lengths".into(), bodies: vec![5, 300], max_enqueues: 4, all_lengths: false },
        ]
    };
    for cfg in cfgs {
        let limits = Limits { max_states: 10_000_000, max_secs: if thorough { 1500.0 } else { 100.0 }, ..Default::default() };
        let st = bfs(&cfg, &limits, workers());
        record(&mut part, &cfg.label, &st);
        crate::explore::require_facts(&mut part, &cfg.label, &st, &["short_write", "enqueue_while_partially_written", "eintr_with_partial_buffer", "failure_with_two_or_more_queued", "write_attempt_with_nothing_pending", "enqueue_after_discard"]);
        for (v, _) in &st.violations {
            part.violations.push(v.clone());
        }
    }
    vec![part]
}
