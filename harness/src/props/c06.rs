//! C06 — queued responses reach the stream completely, once, in order, under short writes.
use crate::connw::WCfg;
use crate::explore::{bfs, record, Limits};
use crate::props::small_build;
use crate::util::{workers, Part};

pub fn run(thorough: bool) -> Vec<Part> {
    if small_build() {
        return vec![];
    }
    let mut part = Part::new("C06", "write-path-r", "model_checking");
    part.assume("all interleavings of enqueue_response (menu: 100-Continue, 200 with small/medium body[, 8 KiB]) and try_write, the stream answering each write with every accepted length 1..offered, 0, EINTR, EAGAIN or EPIPE; at most N enqueues per path (N reported); continuation after discards included; reference = deque of the serialized responses");
    part.assume("one configuration interleaves try_read calls (would-block, end of input, an Expect request whose 100 Continue the connection queues itself, its body, a plain request, a malformed line; delivered requests popped at once): reads never lose, duplicate or reorder output");
    part.assume("EAGAIN from the stream counts as a non-interrupt error (the statement: 'zero bytes written or a non-interrupt error' discards everything)");
    let cfgs: Vec<WCfg> = if thorough {
        vec![
            WCfg { label: "3 enqueues, bodies 5/300, every length".into(), bodies: vec![5, 300], max_enqueues: 3, all_lengths: true, bodyless_variants: false, max_reads: 0 },
            WCfg { label: "6 enqueues, bodies 0/5, every length".into(), bodies: vec![0, 5], max_enqueues: 6, all_lengths: false, bodyless_variants: false, max_reads: 0 },
            WCfg { label: "2 enqueues, bodies 5/8192, every length".into(), bodies: vec![5, 8192], max_enqueues: 2, all_lengths: true, bodyless_variants: false, max_reads: 0 },
            WCfg { label: "3 enqueues, bodies 5/300/8192, boundary lengths".into(), bodies: vec![5, 300, 8192], max_enqueues: 3, all_lengths: false, bodyless_variants: false, max_reads: 0 },
        ]
    } else {
        vec![
            WCfg { label: "3 enqueues, bodies 5/40, every length".into(), bodies: vec![5, 40], max_enqueues: 3, all_lengths: true, bodyless_variants: false, max_reads: 0 },
            WCfg { label: "4 enqueues, bodies 5/300, boundary lengths".into(), bodies: vec![5, 300], max_enqueues: 4, all_lengths: false, bodyless_variants: false, max_reads: 0 },
            WCfg { label: "3 enqueues, bodies 5/5000/9000 (coarse lengths) + body-less variants".into(), bodies: vec![5, 5000, 9000], max_enqueues: 3, all_lengths: false, bodyless_variants: true, max_reads: 0 },
        ]
    };
    for cfg in cfgs {
        let limits = Limits { max_states: 10_000_000, max_secs: if thorough { 1500.0 } else { 100.0 }, ..Default::default() };
        let st = bfs(&cfg, &limits, workers());
        record(&mut part, &cfg.label, &st);
        crate::explore::require_facts(&mut part, &cfg.label, &st, &["short_write", "enqueue_while_partially_written", "eintr_with_partial_buffer", "failure_with_two_or_more_queued", "write_attempt_with_nothing_pending", "enqueue_after_discard"]);
        for (v, _) in &st.violations {
            part.violations.push(v.clone());
        }
    }
    // try_read calls between the enqueues and writes: the connection's own 100 Continue joins the
    // queue in enqueue order; end of input, would-block and parse errors leave pending output alone
    {
        let cfg = if thorough {
            WCfg { label: "reads interleaved: 3 enqueues, bodies 5/40, 4 reads, every length".into(), bodies: vec![5, 40], max_enqueues: 3, all_lengths: true, bodyless_variants: false, max_reads: 4 }
        } else {
            WCfg { label: "reads interleaved: 2 enqueues, bodies 5/40, 3 reads, boundary lengths".into(), bodies: vec![5, 40], max_enqueues: 2, all_lengths: false, bodyless_variants: false, max_reads: 3 }
        };
        let limits = Limits { max_states: 10_000_000, max_secs: if thorough { 1500.0 } else { 100.0 }, ..Default::default() };
        let st = bfs(&cfg, &limits, workers());
        record(&mut part, &cfg.label, &st);
        crate::explore::require_facts(&mut part, &cfg.label, &st, &["short_write", "read_with_partially_written_head", "own_100_continue_queued_behind_pending_output", "end_of_input_with_pending_output"]);
        for (v, _) in &st.violations {
            part.violations.push(v.clone());
        }
    }
    // Independent cross-check without any state de-duplication (protects against state that
    // the digest does not see): every action sequence up to depth N over the boundary menu.
    {
        use crate::explore::System;
        let cfg = WCfg { label: "stateless: every sequence, no de-duplication".into(), bodies: vec![5, 40], max_enqueues: 3, all_lengths: false, bodyless_variants: true, max_reads: 0 };
        let depth = if thorough { 7 } else { 6 };
        let root = cfg.run(&[]);
        let mut prefixes: Vec<Vec<crate::connw::WAct>> = vec![];
        for a in &root.enabled {
            let o = cfg.run(&[*a]);
            for b in &o.enabled {
                prefixes.push(vec![*a, *b]);
            }
        }
        let cfg2 = cfg.clone();
        let t = crate::par::par_enum(
            prefixes.len() as u64,
            workers(),
            300,
            move |i, t| {
                fn dfs(cfg: &WCfg, path: &mut Vec<crate::connw::WAct>, depth: usize, t: &mut crate::par::Tally) {
                    use crate::explore::System;
                    let o = cfg.run(path);
                    t.evals += 1;
                    if o.nontrivial {
                        t.nontrivial += 1;
                    }
                    t.outcome(o.obs % 4096);
                    if let Some(v) = o.violation {
                        t.violate(&v.signature, v.detail, v.replay);
                        return;
                    }
                    if path.len() >= depth {
                        return;
                    }
                    for a in o.enabled {
                        path.push(a);
                        dfs(cfg, path, depth, t);
                        path.pop();
                    }
                }
                let mut p = prefixes[i as usize].clone();
                dfs(&cfg2, &mut p, depth, t);
                if i == 3 {
                    t.sample(serde_json::json!({"prefix": format!("{:?}", prefixes[i as usize]), "depth": depth}));
                }
            },
            |i| format!("stateless prefix #{}", i),
        );
        part.add("stateless_sequences", t.evals);
        part.set("stateless_depth", serde_json::json!(depth));
        part.add("transitions", t.evals);
        part.add("traces_validated_against_impl", t.evals);
        for v in &t.violations {
            part.violations.push(v.clone());
        }
        for e in &t.machinery_errors {
            part.machinery_errors.push(e.clone());
        }
    }
    // long runs of interrupted writes, alone and between short writes (hidden counters)
    {
        use crate::connw::WAct;
        use crate::explore::System;
        let cfg = WCfg { label: "EINTR storms".into(), bodies: vec![5, 600], max_enqueues: 4, all_lengths: false, bodyless_variants: false, max_reads: 0 };
        let mut runs = 0u64;
        for k in [1usize, 2, 7, 8, 9, 10, 16, 40, 300] {
            // (a) k interrupts in a row, then everything is accepted
            let mut p = vec![WAct::Enqueue(2), WAct::Enqueue(1)];
            p.extend(std::iter::repeat(WAct::Eintr).take(k));
            // (b) one interrupt after every short write of 50 bytes
            let mut q = vec![WAct::Enqueue(2), WAct::Enqueue(1)];
            for _ in 0..k.min(11) {
                q.push(WAct::Accept(50));
                q.push(WAct::Eintr);
            }
            for path in [p, q] {
                for cut in 1..=path.len() {
                    let o = cfg.run(&path[..cut]);
                    runs += 1;
                    if let Some(v) = o.violation {
                        part.violations.push(v);
                        break;
                    }
                }
            }
        }
        part.add("transitions", runs);
        part.add("traces_validated_against_impl", runs);
        part.set("eintr_storm_runs", serde_json::json!(runs));
    }
    vec![part]
}
