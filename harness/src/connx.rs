//! Engine connx: product of the real `HttpConnection<ScriptedStream>` with the reference
//! specs, explored over environment choices (what arrives, how reads cut it, empty reads, EOF,
//! descriptors). Every transition executes the real code; the reference never sees read
//! boundaries.

use crate::explore::{Outcome, System};
use crate::spec::headers as sh;
use crate::spec::response::{read_all, ParsedResponse};
use crate::spec::stream::{ErrClass, Event, Machine, Method, SpecRequest, Version};
use crate::stream::{Ctl, ReadAns, ScriptedStream};
use crate::util::{self, show, Violation};
use micro_http::{ConnectionError, HttpConnection, Request, RequestError};
use serde_json::{json, Value};
use std::cell::RefCell;
use std::os::unix::io::{AsRawFd, RawFd};
use std::rc::Rc;

pub fn buffer_size() -> usize {
    HttpConnection::<ScriptedStream>::verif_buffer_size()
}

#[derive(Clone, Copy, Debug, PartialEq, Eq)]
pub enum Class {
    ReqLine,
    Header,
    Blank,
    Body,
    Stray,
}

#[derive(Clone, Debug)]
pub struct Piece {
    pub name: String,
    pub bytes: Vec<u8>,
    pub class: Class,
}

pub fn piece(name: &str, class: Class, bytes: &[u8]) -> Piece {
    Piece { name: name.to_string(), bytes: bytes.to_vec(), class }
}

#[derive(Clone, Copy, Debug, PartialEq, Eq)]
pub enum Act {
    /// The environment appends piece i to the bytes that have arrived but were not read yet.
    Offer(u16),
    /// One `try_read`; k bytes have arrived (the stream hands over min(k, space offered)),
    /// accompanied by f descriptors. The top bits of k select what the application does next:
    /// `DEFER` nothing (it pops / writes after a later read), `POP_ONE` it pops exactly one
    /// request, `WFAIL` it pops everything but the stream fails the first write with EPIPE.
    Read(u16, u8),
    /// One `try_read` answered with EAGAIN (0) / EINTR (1).
    Empty(u8),
    /// One `try_read` answered with 0 bytes (+ f descriptors).
    Eof(u8),
}

pub const DEFER: u16 = 0x8000;
pub const POP_ONE: u16 = 0x4000;
pub const WFAIL: u16 = 0x2000;
/// the application pops everything, but the stream takes only one byte of the pending output and
/// the application does not write again before the next read (a response stays partly written)
pub const WSHORT: u16 = 0x1000;
pub const KMASK: u16 = 0x0fff;

pub fn enc(a: Act) -> u64 {
    match a {
        Act::Offer(p) => 1 << 32 | p as u64,
        Act::Read(k, f) => 2 << 32 | (f as u64) << 16 | k as u64,
        Act::Empty(e) => 3 << 32 | e as u64,
        Act::Eof(f) => 4 << 32 | f as u64,
    }
}
pub fn dec(x: u64) -> Act {
    match x >> 32 {
        1 => Act::Offer(x as u16),
        2 => Act::Read(x as u16, (x >> 16) as u8),
        3 => Act::Empty(x as u8),
        4 => Act::Eof(x as u8),
        _ => panic!("bad action code {}", x),
    }
}

#[derive(Clone)]
pub struct Cfg {
    pub property: String,
    pub label: String,
    pub pieces: Vec<Piece>,
    /// Fixed stream (stream mode): no Offer actions, everything has "arrived" from the start but
    /// reads take any size.
    pub stream: Option<Vec<u8>>,
    pub limit: usize,
    pub empty_reads: bool,
    pub eof: bool,
    /// C11: keep going after a parse error, in lock-step with a fresh connection.
    pub continue_after_error: bool,
    /// C12: reads carry up to this many descriptors.
    pub max_fds_per_read: u8,
    pub max_pending_fds: usize,
    /// Offer only while at most this many bytes are waiting.
    pub offer_when_queued_le: usize,
    /// Error-free pieces only (C12).
    pub judge_errors: bool,
    /// C03: only the robustness oracles (no panic, call counts, well-formed output); the run
    /// continues after ParseError, StreamReadError and ConnectionClosed.
    pub robust_only: bool,
    /// also explore reads after which the application neither pops requests nor writes output
    /// (it does so after a later read): hand-over of descriptors and interim responses must
    /// not depend on when the application looks
    pub allow_defer: bool,
    /// the application answers every request it pops with a small 200 response and writes it
    /// out at once (the write path shares the connection object with the read path)
    pub answer_requests: bool,
    /// also explore reads after which the first write of the pending output fails (EPIPE): the
    /// output is lost, but reading must go on exactly as the stream dictates
    pub write_faults: bool,
    /// also explore reads after which the stream accepts a single byte of the pending output and
    /// the rest stays in the connection until after the next read
    pub write_shorts: bool,
    /// short / failing writes are also explored on reads that carry descriptors
    pub write_flags_with_fds: bool,
    /// descriptors handed to the connection get numbers that zigzag around 600 in arrival
    /// order (otherwise: lowest free number, so that a double close hits a recycled number)
    pub zigzag_fds: bool,
}

impl Cfg {
    pub fn base(property: &str, label: &str, pieces: Vec<Piece>, limit: usize) -> Cfg {
        Cfg {
            property: property.into(),
            label: label.into(),
            pieces,
            stream: None,
            limit,
            empty_reads: true,
            eof: false,
            continue_after_error: false,
            max_fds_per_read: 0,
            max_pending_fds: 4,
            offer_when_queued_le: 2,
            judge_errors: true,
            robust_only: false,
            allow_defer: false,
            answer_requests: false,
            write_faults: false,
            write_shorts: false,
            write_flags_with_fds: false,
            zigzag_fds: false,
        }
    }
    pub fn to_json(&self) -> Value {
        json!({
            "property": self.property, "label": self.label, "limit": self.limit,
            "buffer_size": buffer_size(),
            "pieces": self.pieces.iter().map(|p| json!({"name": p.name, "hex": util::hex(&p.bytes), "class": format!("{:?}", p.class)})).collect::<Vec<_>>(),
            "stream_hex": self.stream.as_ref().map(|s| util::hex(s)),
            "empty_reads": self.empty_reads, "eof": self.eof,
            "continue_after_error": self.continue_after_error,
            "max_fds_per_read": self.max_fds_per_read, "max_pending_fds": self.max_pending_fds,
            "offer_when_queued_le": self.offer_when_queued_le, "judge_errors": self.judge_errors, "robust_only": self.robust_only, "allow_defer": self.allow_defer, "answer_requests": self.answer_requests, "write_faults": self.write_faults, "write_shorts": self.write_shorts, "write_flags_with_fds": self.write_flags_with_fds, "zigzag_fds": self.zigzag_fds,
        })
    }
    pub fn from_json(v: &Value) -> Cfg {
        let class = |s: &str| match s {
            "ReqLine" => Class::ReqLine,
            "Header" => Class::Header,
            "Blank" => Class::Blank,
            "Body" => Class::Body,
            _ => Class::Stray,
        };
        Cfg {
            property: v["property"].as_str().unwrap().into(),
            label: v["label"].as_str().unwrap().into(),
            pieces: v["pieces"]
                .as_array()
                .unwrap()
                .iter()
                .map(|p| Piece {
                    name: p["name"].as_str().unwrap().into(),
                    bytes: util::unhex(p["hex"].as_str().unwrap()),
                    class: class(p["class"].as_str().unwrap()),
                })
                .collect(),
            stream: v["stream_hex"].as_str().map(util::unhex),
            limit: v["limit"].as_u64().unwrap() as usize,
            empty_reads: v["empty_reads"].as_bool().unwrap(),
            eof: v["eof"].as_bool().unwrap(),
            continue_after_error: v["continue_after_error"].as_bool().unwrap(),
            max_fds_per_read: v["max_fds_per_read"].as_u64().unwrap() as u8,
            max_pending_fds: v["max_pending_fds"].as_u64().unwrap() as usize,
            offer_when_queued_le: v["offer_when_queued_le"].as_u64().unwrap() as usize,
            judge_errors: v["judge_errors"].as_bool().unwrap(),
            robust_only: v["robust_only"].as_bool().unwrap_or(false),
            allow_defer: v["allow_defer"].as_bool().unwrap_or(false),
            answer_requests: v["answer_requests"].as_bool().unwrap_or(false),
            write_faults: v["write_faults"].as_bool().unwrap_or(false),
            zigzag_fds: v["zigzag_fds"].as_bool().unwrap_or(false),
            write_shorts: v["write_shorts"].as_bool().unwrap_or(false),
            write_flags_with_fds: v["write_flags_with_fds"].as_bool().unwrap_or(false),
        }
    }
}

// ---------------------------------------------------------------------------------------------
// Observation of the implementation through its public API

pub fn classify(e: &RequestError) -> (Option<ErrClass>, String) {
    use micro_http::HttpHeaderError as H;
    match e {
        RequestError::InvalidRequest => (Some(ErrClass::RequestLine), "InvalidRequest".into()),
        RequestError::InvalidHttpMethod(_) => (Some(ErrClass::Method), "InvalidHttpMethod".into()),
        RequestError::InvalidUri(_) => (Some(ErrClass::Uri), "InvalidUri".into()),
        RequestError::InvalidHttpVersion(_) => (Some(ErrClass::Version), "InvalidHttpVersion".into()),
        RequestError::SizeLimitExceeded(l, n) => (Some(ErrClass::Payload(*l, *n)), format!("SizeLimitExceeded({},{})", l, n)),
        RequestError::HeaderError(h) => (
            Some(ErrClass::Header),
            format!(
                "HeaderError::{}",
                match h {
                    H::InvalidFormat(_) => "InvalidFormat",
                    H::InvalidUtf8String(_) => "InvalidUtf8String",
                    H::InvalidValue(_, _) => "InvalidValue",
                    H::SizeLimitExceeded(_) => "SizeLimitExceeded",
                    H::UnsupportedFeature(_, _) => "UnsupportedFeature",
                    H::UnsupportedName(_) => "UnsupportedName",
                    H::UnsupportedValue(_, _) => "UnsupportedValue",
                }
            ),
        ),
        other => (None, format!("{:?}", other)),
    }
}

/// `InvalidRequest` is the documented kind both for a malformed request line and for the
/// `Accept-Encoding` header with an empty value, so it satisfies either class.
pub fn class_matches(expected: ErrClass, e: &RequestError) -> bool {
    let (got, _) = classify(e);
    match (expected, got) {
        (ErrClass::AcceptEncoding, Some(ErrClass::RequestLine)) => true,
        (ErrClass::AcceptEncoding, Some(ErrClass::Header)) => true,
        (x, Some(y)) => x == y,
        _ => false,
    }
}

pub fn view_request(r: &Request) -> SpecRequest {
    let method = match r.method() {
        micro_http::Method::Get => Method::Get,
        micro_http::Method::Put => Method::Put,
        micro_http::Method::Patch => Method::Patch,
    };
    let version = match r.http_version() {
        micro_http::Version::Http10 => Version::H10,
        micro_http::Version::Http11 => Version::H11,
    };
    // `Uri` exposes its text only through `Debug` (and `get_abs_path`).
    // Any Debug form that renders the text as a quoted string literal is understood
    // (`Uri { string: "/x" }`, `Uri("/x")`, ...): the literal is what lies between the first
    // and the last double quote.
    let dbg = format!("{:?}", r.uri());
    let uri = match (dbg.find('"'), dbg.rfind('"')) {
        (Some(a), Some(b)) if b > a => unescape_debug(&dbg[a..=b]),
        _ => dbg.clone(),
    };
    SpecRequest {
        method,
        uri,
        version,
        headers: sh::view(&r.headers),
        body: r.body.as_ref().map(|b| b.raw().to_vec()),
    }
}

/// Inverse of `{:?}` on a `String` for the characters our alphabets use.
fn unescape_debug(s: &str) -> String {
    let inner = s.strip_prefix('"').and_then(|x| x.strip_suffix('"')).unwrap_or(s);
    let mut out = String::new();
    let mut it = inner.chars().peekable();
    while let Some(c) = it.next() {
        if c != '\\' {
            out.push(c);
            continue;
        }
        match it.next() {
            Some('n') => out.push('\n'),
            Some('r') => out.push('\r'),
            Some('t') => out.push('\t'),
            Some('0') => out.push('\0'),
            Some('\\') => out.push('\\'),
            Some('"') => out.push('"'),
            Some('\'') => out.push('\''),
            Some('u') => {
                let mut hexs = String::new();
                if it.next() == Some('{') {
                    for h in it.by_ref() {
                        if h == '}' {
                            break;
                        }
                        hexs.push(h);
                    }
                }
                if let Some(ch) = u32::from_str_radix(&hexs, 16).ok().and_then(char::from_u32) {
                    out.push(ch);
                }
            }
            Some(o) => {
                out.push('\\');
                out.push(o);
            }
            None => out.push('\\'),
        }
    }
    out
}

pub fn show_req(r: &SpecRequest) -> String {
    format!(
        "{:?} {:?} {:?} cl={} expect={} chunked={} accept_json={} custom={:?} body={}",
        r.method,
        r.uri,
        r.version,
        r.headers.content_length,
        r.headers.expect,
        r.headers.chunked,
        r.headers.accept_json,
        r.headers.custom,
        match &r.body {
            None => "None".to_string(),
            Some(b) => format!("[{}]{:?}", b.len(), show(b)),
        }
    )
}

// ---------------------------------------------------------------------------------------------
// One live execution

pub struct Conn {
    pub conn: HttpConnection<ScriptedStream>,
    pub ctl: Rc<RefCell<Ctl>>,
    /// answer every popped request with a small 200 response before draining the output
    pub answer: bool,
    /// offset into the accepted bytes where the next unparsed response starts
    pub parse_from: usize,
    /// answers enqueued by earlier reads whose output has not been drained yet
    pub owed_answers: usize,
}

pub const ANSWER_BODY: &[u8] = b"ack";

pub fn answer_response() -> micro_http::Response {
    let mut r = micro_http::Response::new(micro_http::Version::Http11, micro_http::StatusCode::OK);
    r.set_body(micro_http::Body::new(ANSWER_BODY.to_vec()));
    r
}

/// Splits what was drained into (interim and other responses, number of application answers).
pub fn split_answers(rs: Vec<ParsedResponse>) -> (Vec<ParsedResponse>, usize) {
    let mut n = 0;
    let mut rest = vec![];
    for r in rs {
        if r.code == 200 && r.body == ANSWER_BODY {
            n += 1;
        } else {
            rest.push(r);
        }
    }
    (rest, n)
}

impl Conn {
    pub fn new(limit: usize) -> Conn {
        let (s, ctl) = ScriptedStream::new();
        let mut conn = HttpConnection::new(s);
        conn.set_payload_max_size(limit);
        Conn { conn, ctl, answer: false, parse_from: 0, owed_answers: 0 }
    }
    pub fn read_cursor(&self) -> usize {
        self.conn.verif_cursor().1
    }
}

/// What one `try_read` call did, seen from outside.
pub struct ReadObs {
    pub result: Result<Result<(), ConnectionError>, String>,
    pub taken: usize,
    pub recv_calls: usize,
    pub other_stream_calls: usize,
    pub delivered: Vec<Request>,
    pub pop_panic: Option<String>,
    /// Responses the connection wrote when drained afterwards.
    pub interim: Vec<ParsedResponse>,
    pub interim_garbage: Option<String>,
    pub write_calls_per_try_write_max: usize,
    pub drain_error: Option<String>,
    /// the harness failed the first write of the drain (output is lost by design)
    pub write_failed: bool,
    /// only one byte of the pending output was written; the rest stays pending
    pub write_deferred: bool,
}

/// Performs one `try_read` with the given stream answer, then pops all parsed requests and
/// drains all pending output into an all-accepting sink.
pub fn do_read(c: &mut Conn, ans: ReadAns) -> ReadObs {
    do_read_opt(c, ans, true)
}

/// `settle == false`: only `try_read` is called; parsed requests stay in the connection's queue
/// and pending output stays unwritten (the application pops / writes later).
pub fn do_read_opt(c: &mut Conn, ans: ReadAns, settle: bool) -> ReadObs {
    do_read_full(c, ans, settle, false)
}

pub fn do_read_full(c: &mut Conn, ans: ReadAns, settle: bool, wfail: bool) -> ReadObs {
    do_read_modes(c, ans, settle, wfail, false)
}

pub fn do_read_modes(c: &mut Conn, ans: ReadAns, settle: bool, wfail: bool, wshort: bool) -> ReadObs {
    let offered = match &ans {
        ReadAns::Data(b, _) => b.len(),
        _ => 0,
    };
    {
        let mut ctl = c.ctl.borrow_mut();
        ctl.next_read = Some(ans);
        ctl.recv_calls = 0;
        ctl.read_calls = 0;
        ctl.write_calls = 0;
    }
    let result = util::catch(|| c.conn.try_read());
    let (recv_calls, other, space, consumed_answer) = {
        let mut ctl = c.ctl.borrow_mut();
        let unconsumed = ctl.next_read.take().is_some();
        (ctl.recv_calls, ctl.read_calls + ctl.write_calls, ctl.last_iov_len, !unconsumed)
    };
    let taken = if consumed_answer { offered.min(space) } else { 0 };
    let mut delivered = vec![];
    let mut pop_panic = None;
    if !settle {
        return ReadObs {
            result,
            taken,
            recv_calls,
            other_stream_calls: other,
            delivered,
            pop_panic,
            interim: vec![],
            interim_garbage: None,
            write_calls_per_try_write_max: 0,
            drain_error: None,
            write_failed: false,
            write_deferred: false,
        };
    }
    loop {
        match util::catch(|| c.conn.pop_parsed_request()) {
            Ok(Some(r)) => delivered.push(r),
            Ok(None) => break,
            Err(p) => {
                pop_panic = Some(p);
                break;
            }
        }
        if delivered.len() > 10_000 {
            pop_panic = Some("pop_parsed_request never returns None".into());
            break;
        }
    }
    if c.answer {
        for _ in 0..delivered.len() {
            if let Err(p) = util::catch(|| c.conn.enqueue_response(answer_response())) {
                pop_panic = Some(format!("enqueue_response panicked: {}", p));
            }
        }
    }
    let mut write_failed = false;
    if wfail && util::catch(|| c.conn.pending_write()).unwrap_or(false) {
        // the stream fails the next write: the connection reports it and drops its output
        {
            let mut ctl = c.ctl.borrow_mut();
            ctl.next_write = Some(crate::stream::WriteAns::Errno(libc::EPIPE));
            ctl.write_calls = 0;
        }
        let r = util::catch(|| c.conn.try_write());
        write_failed = true;
        match r {
            Err(p) => pop_panic = Some(format!("try_write panicked on a failing stream: {}", p)),
            Ok(Ok(())) => pop_panic = Some("try_write returned Ok although the stream failed the write with EPIPE".into()),
            Ok(Err(_)) => {}
        }
        c.ctl.borrow_mut().next_write = None;
        // whatever was partly written before is now a truncated response on the stream: by
        // design (C06: pending output is discarded); parsing resumes behind it
        c.parse_from = c.ctl.borrow().accepted.len();
        c.owed_answers = 0;
    }
    if wshort && !write_failed && util::catch(|| c.conn.pending_write()).unwrap_or(false) {
        {
            let mut ctl = c.ctl.borrow_mut();
            ctl.next_write = Some(crate::stream::WriteAns::Accept(1));
            ctl.write_default_all = false;
            ctl.write_calls = 0;
        }
        let r = util::catch(|| c.conn.try_write());
        let w = c.ctl.borrow().write_calls;
        c.ctl.borrow_mut().next_write = None;
        if c.answer {
            c.owed_answers += delivered.len();
        }
        let mut derr = None;
        match r {
            Err(p) => pop_panic = Some(format!("try_write panicked: {}", p)),
            Ok(Err(e)) => derr = Some(format!("try_write into a stream that accepted one byte failed: {:?}", e)),
            Ok(Ok(())) => {}
        }
        return ReadObs {
            result,
            taken,
            recv_calls,
            other_stream_calls: other,
            delivered,
            pop_panic,
            interim: vec![],
            interim_garbage: None,
            write_calls_per_try_write_max: w,
            drain_error: derr,
            write_failed: false,
            write_deferred: true,
        };
    }
    let (interim, interim_garbage, wmax, mut drain_error) = drain_output(c);
    let (interim, answers) = split_answers(interim);
    let owed = std::mem::take(&mut c.owed_answers);
    if write_failed {
        // everything pending, including what earlier reads left behind, is gone by design
    } else if c.answer && answers != delivered.len() + owed && drain_error.is_none() && interim_garbage.is_none() {
        drain_error = Some(format!("the application answered {} popped requests ({} of them before earlier reads) but {} answers came out of the connection", delivered.len() + owed, owed, answers));
    }
    if false && c.answer && !write_failed && answers != delivered.len() && drain_error.is_none() && interim_garbage.is_none() {
        drain_error = Some(format!("the application answered {} popped requests but {} answers came out of the connection", delivered.len(), answers));
    }
    ReadObs {
        result,
        taken,
        recv_calls,
        other_stream_calls: other,
        delivered,
        pop_panic,
        interim,
        interim_garbage,
        write_calls_per_try_write_max: wmax,
        drain_error,
        write_failed,
        write_deferred: false,
    }
}

pub fn drain_output(c: &mut Conn) -> (Vec<ParsedResponse>, Option<String>, usize, Option<String>) {
    let mut wmax = 0;
    let mut err = None;
    let start = c.ctl.borrow().accepted.len();
    let mut guard = 0;
    loop {
        let pending = match util::catch(|| c.conn.pending_write()) {
            Ok(p) => p,
            Err(p) => {
                err = Some(format!("pending_write panicked: {}", p));
                break;
            }
        };
        if !pending {
            break;
        }
        {
            let mut ctl = c.ctl.borrow_mut();
            ctl.write_default_all = true;
            ctl.write_calls = 0;
        }
        let r = util::catch(|| c.conn.try_write());
        let w = c.ctl.borrow().write_calls;
        wmax = wmax.max(w);
        match r {
            Ok(Ok(())) => {}
            Ok(Err(e)) => {
                err = Some(format!("try_write into an all-accepting sink failed: {:?}", e));
                break;
            }
            Err(p) => {
                err = Some(format!("try_write panicked: {}", p));
                break;
            }
        }
        guard += 1;
        if guard > 10_000 {
            err = Some("pending_write stays true for ever on an all-accepting sink".into());
            break;
        }
    }
    let _ = start;
    let from = c.parse_from.min(c.ctl.borrow().accepted.len());
    let bytes = c.ctl.borrow().accepted[from..].to_vec();
    let (rs, used, tail) = read_all(&bytes);
    c.parse_from = from + used;
    let garbage = match tail {
        Err(m) => Some(m),
        Ok(()) if used != bytes.len() => Some(format!("incomplete response left on the stream: {:?}", show(&bytes[used..]))),
        Ok(()) => None,
    };
    (rs, garbage, wmax, err)
}

fn result_str(r: &Result<Result<(), ConnectionError>, String>) -> String {
    match r {
        Err(p) => format!("PANIC({})", p),
        Ok(Ok(())) => "Ok".into(),
        Ok(Err(ConnectionError::ParseError(e))) => format!("ParseError({})", classify(e).1),
        Ok(Err(ConnectionError::ConnectionClosed)) => "ConnectionClosed".into(),
        Ok(Err(ConnectionError::StreamReadError(e))) => format!("StreamReadError({})", e.errno()),
        Ok(Err(e)) => format!("{:?}", e),
    }
}

// Environment-coverage facts (computed from the bytes and the cuts, never from the subject).
pub const FACTS: [&str; 16] = [
    "read_ended_between_CR_and_LF",
    "read_ended_right_after_a_line_CRLF_inside_header_block",
    "read_filled_the_offered_space_completely",
    "read_ended_exactly_at_body_end",
    "read_ended_inside_body",
    "read_carried_bytes_past_a_completed_request",
    "empty_read_while_partial_line_buffered",
    "read_filled_space_after_carry(line_crossed_buffer_edge)",
    "parse_error_while_partial_line_was_buffered_before_the_read",
    "read_completed_two_or_more_requests",
    "eof_read",
    "descriptors_on_read_completing_no_request",
    "descriptors_on_read_completing_one_request",
    "descriptors_on_read_completing_several_requests",
    "descriptors_on_eof_read",
    "continued_after_parse_error",
];
pub const IMPL_FACTS: [&str; 12] = [
    "delivered_request",
    "delivered_request_with_body",
    "err_request_line",
    "err_method",
    "err_uri",
    "err_version",
    "err_header",
    "err_payload",
    "interim_100",
    "state_waiting_headers",
    "state_waiting_body",
    "carry_nonzero",
];

pub struct Exec<'a> {
    pub cfg: &'a Cfg,
    pub c: Conn,
    pub machine: Machine,
    /// C11: fresh connection created at the most recent parse error.
    pub twin: Option<Conn>,
    pub queue: Vec<u8>,
    pub stream_pos: usize,
    pub consumed: Vec<u8>,
    pub terminal: bool,
    pub errored: bool,
    pub obs_log: Vec<u8>,
    pub violation: Option<(String, String)>,
    pub facts: u64,
    pub impl_facts: u64,
    pub steps: Vec<Value>,
    pub tracing: bool,
    /// descriptors: (read end handed to the connection, write end kept by the harness)
    pub pipes: Vec<(RawFd, RawFd)>,
    /// read ends received by the connection and not yet attached to a request (reference)
    pub pending_fds: Vec<RawFd>,
    pub delivered_files: Vec<std::fs::File>,
    pub delivered_count: usize,
    /// expectations accumulated by deferred reads (requests completed but not popped yet,
    /// their descriptor lists, interim responses due but not written yet)
    pub acc_reqs: Vec<SpecRequest>,
    pub acc_fd_lists: std::collections::VecDeque<Vec<RawFd>>,
    pub acc_100: Vec<Version>,
    pub defer_streak: usize,
    /// a write has failed earlier on this path (part of the state key: the connection may
    /// remember it in fields the digest does not see)
    pub had_wfail: bool,
    /// canonical (segmentation independent) observation: requests, interim responses, errors
    pub canon: [Vec<u8>; 3],
}

impl<'a> Exec<'a> {
    pub fn new(cfg: &'a Cfg, tracing: bool) -> Exec<'a> {
        let mut e = Exec {
            cfg,
            c: {
                let mut c = Conn::new(cfg.limit);
                c.answer = cfg.answer_requests;
                c
            },
            machine: Machine::new(cfg.limit, buffer_size()),
            twin: None,
            queue: vec![],
            stream_pos: 0,
            consumed: vec![],
            terminal: false,
            errored: false,
            obs_log: vec![],
            violation: None,
            facts: 0,
            impl_facts: 0,
            steps: vec![],
            tracing,
            pipes: vec![],
            had_wfail: false,
            pending_fds: vec![],
            delivered_files: vec![],
            delivered_count: 0,
            acc_reqs: vec![],
            acc_fd_lists: Default::default(),
            acc_100: vec![],
            defer_streak: 0,
            canon: [vec![], vec![], vec![]],
        };
        if let Some(s) = &cfg.stream {
            e.queue = s.clone();
        }
        e
    }

    fn fail(&mut self, sig: &str, detail: String) {
        if self.violation.is_none() {
            self.violation = Some((sig.to_string(), detail));
        }
        self.terminal = true;
    }

    /// The application changes the connection's payload limit now: it applies to every header
    /// block that completes from now on (the reference switches at the same stream position).
    pub fn set_limit(&mut self, limit: usize) {
        self.c.conn.set_payload_max_size(limit);
        self.machine.limit = limit;
        self.obs_log.extend_from_slice(format!("limit {};", limit).as_bytes());
    }

    fn make_fds(&mut self, n: u8) -> Vec<RawFd> {
        let mut v = vec![];
        for _ in 0..n {
            let mut p = [0i32; 2];
            assert_eq!(unsafe { libc::pipe(p.as_mut_ptr()) }, 0);
            unsafe {
                libc::fcntl(p[1], libc::F_SETFL, libc::O_NONBLOCK);
            }
            // descriptor numbers that are neither ascending nor descending in arrival order
            // (zigzag around 600), so that no ordering by number coincides with arrival order
            let rd = if self.cfg.zigzag_fds {
                let n = self.pipes.len() as i32;
                let target = if n % 2 == 0 { 600 + n / 2 } else { 599 - n / 2 };
                let rd = unsafe { libc::dup2(p[0], target) };
                assert_eq!(rd, target);
                unsafe {
                    libc::close(p[0]);
                }
                rd
            } else {
                p[0]
            };
            self.pipes.push((rd, p[1]));
            v.push(rd);
        }
        v
    }

    pub fn step(&mut self, a: Act) {
        self.facts = 0;
        self.impl_facts = 0;
        match a {
            Act::Offer(p) => {
                let bytes = self.cfg.pieces[p as usize].bytes.clone();
                self.queue.extend_from_slice(&bytes);
                self.obs_log.extend_from_slice(format!("offer {};", p).as_bytes());
                if self.tracing {
                    self.steps.push(json!({"action": format!("Offer({})", self.cfg.pieces[p as usize].name), "bytes": show(&bytes)}));
                }
            }
            Act::Read(k, f) => self.read(k as usize, f),
            Act::Empty(e) => self.empty(e),
            Act::Eof(f) => self.eof(f),
        }
    }

    fn empty(&mut self, e: u8) {
        let errno = if e == 0 { libc::EAGAIN } else { libc::EINTR };
        let before = self.c.conn.verif_digest();
        let settled = self.acc_reqs.is_empty() && self.acc_100.is_empty() && self.acc_fd_lists.is_empty();
        let o = do_read_opt(&mut self.c, ReadAns::Errno(errno), settled);
        let after = self.c.conn.verif_digest();
        if self.machine.partial_line_len() > 0 {
            self.facts |= 1 << 6;
        }
        let rs = result_str(&o.result);
        if self.tracing {
            self.steps.push(json!({"action": format!("Empty({})", if e == 0 {"EAGAIN"} else {"EINTR"}), "try_read": rs, "delivered": o.delivered.len()}));
        }
        if let Err(p) = &o.result {
            return self.fail("panic", format!("try_read panicked: {}", p));
        }
        if self.cfg.robust_only {
            if o.recv_calls > 1 || o.other_stream_calls != 0 {
                return self.fail("stream-call-count", format!("try_read made {} receive calls and {} other stream calls", o.recv_calls, o.other_stream_calls));
            }
            self.obs_log.extend_from_slice(rs.as_bytes());
            return;
        }
        // A read that brought nothing is not one of the stream's errors (C01): the call may
        // report the stream condition (StreamReadError) or nothing at all, never a parse error or
        // a closed connection.
        match &o.result {
            Ok(Err(ConnectionError::StreamReadError(_))) | Ok(Ok(())) => {}
            _ => {
                return self.fail(
                    "empty-read-result",
                    format!("try_read on a stream answering errno {} (no data) returned {}", errno, rs),
                )
            }
        }
        if o.recv_calls > 1 || o.other_stream_calls != 0 {
            return self.fail("stream-call-count", format!("try_read made {} receive calls and {} other stream calls (at most one receive per call is allowed)", o.recv_calls, o.other_stream_calls));
        }
        if !o.delivered.is_empty() || !o.interim.is_empty() {
            return self.fail("empty-read-delivered", format!("an empty read delivered {} requests / {} responses", o.delivered.len(), o.interim.len()));
        }
        // (The implementation may do housekeeping on such a call; if that changes its state the
        // changed state gets its own key and is explored like any other - what matters is that
        // deliveries and errors still follow the stream.)
        let _ = (before, after);
        if let Some(t) = &mut self.twin {
            let _ = do_read(t, ReadAns::Errno(errno));
        }
    }

    fn eof(&mut self, f: u8) {
        let fds = self.make_fds(f);
        self.pending_fds.extend_from_slice(&fds);
        let settled = self.acc_reqs.is_empty() && self.acc_100.is_empty() && self.acc_fd_lists.is_empty();
        let o = do_read_opt(&mut self.c, ReadAns::Eof(fds), settled);
        self.facts |= 1 << 10;
        if f > 0 {
            self.facts |= 1 << 14;
        }
        let rs = result_str(&o.result);
        if self.tracing {
            self.steps.push(json!({"action": format!("Eof(fds={})", f), "try_read": rs, "delivered": o.delivered.len()}));
        }
        self.obs_log.extend_from_slice(b"eof;");
        if let Err(p) = &o.result {
            return self.fail("panic", format!("try_read panicked: {}", p));
        }
        if self.cfg.robust_only {
            if o.recv_calls > 1 || o.other_stream_calls != 0 {
                return self.fail("stream-call-count", format!("try_read made {} receive calls and {} other stream calls", o.recv_calls, o.other_stream_calls));
            }
            self.keep(o);
            return;
        }
        self.terminal = true;
        match &o.result {
            Ok(Err(ConnectionError::ConnectionClosed)) => {}
            _ => return self.fail("eof-result", format!("try_read on end of stream must report ConnectionClosed, got {}", rs)),
        }
        if !o.delivered.is_empty() {
            return self.fail("eof-delivered", format!("end of stream delivered {} requests", o.delivered.len()));
        }
        if o.recv_calls > 1 || o.other_stream_calls != 0 {
            return self.fail("stream-call-count", format!("try_read made {} receive calls and {} other stream calls", o.recv_calls, o.other_stream_calls));
        }
    }

    fn read(&mut self, k: usize, f: u8) {
        let kk = k as u16;
        let defer = kk & DEFER != 0;
        let pop_one = kk & POP_ONE != 0 && !defer;
        let wfail = kk & WFAIL != 0 && !defer && !pop_one;
        let wshort = kk & WSHORT != 0 && !defer && !pop_one && !wfail;
        let k = (kk & KMASK) as usize;
        let wshort_flag = kk & WSHORT != 0 && !defer && !pop_one && kk & WFAIL == 0;
        self.defer_streak = if defer || pop_one || wshort_flag { self.defer_streak + 1 } else { 0 };
        let k = k.min(self.queue.len());
        let arrived = self.queue[..k].to_vec();
        let fds = self.make_fds(f);
        let carry_before = self.machine.partial_line_len();
        let o = do_read_modes(&mut self.c, ReadAns::Data(arrived.clone(), fds.clone()), !(defer || pop_one), wfail, wshort);
        if o.write_failed {
            self.had_wfail = true;
        }
        let taken = o.taken;
        let bytes: Vec<u8> = self.queue.drain(..taken).collect();
        self.stream_pos += taken;
        self.consumed.extend_from_slice(&bytes);
        let space = self.c.ctl.borrow().last_iov_len;
        let rs = result_str(&o.result);

        // reference: feed exactly the bytes the stream handed out, one at a time
        let mut events = vec![];
        let was_dead = self.machine.is_dead();
        for b in &bytes {
            self.machine.feed(*b, &mut events);
        }
        // environment facts
        if !was_dead {
            if bytes.last() == Some(&b'\r') && (self.machine.in_request_line() || self.machine.in_headers()) {
                self.facts |= 1 << 0;
            }
            if self.machine.in_headers() && self.machine.partial_line_len() == 0 {
                self.facts |= 1 << 1;
            }
            if taken == space && taken > 0 {
                self.facts |= 1 << 2;
                if space < buffer_size() {
                    self.facts |= 1 << 7;
                }
            }
            let nreq = events.iter().filter(|e| matches!(e, Event::Request(_))).count();
            if matches!(events.last(), Some(Event::Request(r)) if r.body.is_some()) && self.machine.at_request_boundary() {
                self.facts |= 1 << 3;
            }
            if self.machine.in_body() {
                self.facts |= 1 << 4;
            }
            if nreq >= 1 && !self.machine.at_request_boundary() {
                self.facts |= 1 << 5;
            }
            if nreq >= 2 {
                self.facts |= 1 << 9;
            }
            if f > 0 {
                self.facts |= 1 << (11 + nreq.min(2));
            }
            if events.iter().any(|e| matches!(e, Event::Error(_))) && carry_before > 0 {
                self.facts |= 1 << 8;
            }
        }

        let got: Vec<SpecRequest> = o.delivered.iter().map(view_request).collect();
        if self.tracing {
            self.steps.push(json!({
                "action": format!("Read(arrived={}, fds={}{})", k, f, if defer { ", application does not pop/write yet" } else if pop_one { ", application pops one request only" } else if wfail { ", the stream fails the next write (EPIPE)" } else if wshort { ", the stream takes one byte of the output and the application does not write again yet" } else { "" }),
                "bytes_taken": show(&bytes), "space_offered": space,
                "try_read": rs,
                "delivered": got.iter().map(show_req).collect::<Vec<_>>(),
                "interim_responses": o.interim.iter().map(|r| format!("{} {}", r.version, r.code)).collect::<Vec<_>>(),
                "reference_events": events.iter().map(|e| match e { Event::Request(r) => format!("Request({})", show_req(r)), other => format!("{:?}", other)}).collect::<Vec<_>>(),
            }));
        }

        // ---- oracles common to every mode ----
        if let Err(p) = &o.result {
            return self.fail("panic", format!("try_read panicked: {}", p));
        }
        if let Some(p) = &o.pop_panic {
            return self.fail("panic", format!("pop_parsed_request: {}", p));
        }
        if o.recv_calls > 1 || o.other_stream_calls != 0 {
            return self.fail("stream-call-count", format!("try_read made {} receive calls and {} other stream calls (at most one receive per call is allowed)", o.recv_calls, o.other_stream_calls));
        }
        if o.write_calls_per_try_write_max > 1 {
            return self.fail("stream-call-count", format!("one try_write made {} write calls", o.write_calls_per_try_write_max));
        }
        if let Some(e) = &o.drain_error {
            return self.fail("drain", e.clone());
        }
        if let Some(g) = &o.interim_garbage {
            return self.fail("interim-garbage", format!("bytes written after try_read are not a sequence of well-formed responses: {}", g));
        }
        {
            let ctl = self.c.ctl.borrow();
            if !ctl.protocol_errors.is_empty() {
                let m = ctl.protocol_errors.join("; ");
                drop(ctl);
                return self.fail("stream-protocol", m);
            }
        }

        if self.cfg.robust_only {
            if taken == 0 && k > 0 && matches!(&o.result, Ok(Ok(()))) {
                return self.fail("no-progress", "try_read returned Ok but consumed nothing although bytes had arrived".into());
            }
            self.obs_log.extend_from_slice(rs.as_bytes());
            self.obs_log.push(b';');
            if !matches!(&o.result, Ok(Ok(()))) {
                self.errored = true;
                self.facts |= 1 << 15;
            }
            self.keep(o);
            return;
        }
        // descriptors (reference: pending list, handed in arrival order to the first request
        // completed by this or a later read) - recorded per completed request, compared when the
        // application pops
        self.pending_fds.extend_from_slice(&fds);
        if self.cfg.max_fds_per_read > 0 {
            let ncompleted = events.iter().filter(|e| matches!(e, Event::Request(_))).count();
            for i in 0..ncompleted {
                let want: Vec<RawFd> = if i == 0 { std::mem::take(&mut self.pending_fds) } else { vec![] };
                self.acc_fd_lists.push_back(want);
            }
            for (i, r) in o.delivered.iter().enumerate() {
                let have: Vec<RawFd> = r.files.iter().map(|f| f.as_raw_fd()).collect();
                let want = self.acc_fd_lists.pop_front().unwrap_or_default();
                if have != want {
                    return self.fail(
                        "fd-attribution",
                        format!("popped request #{} carries descriptors {:?}, expected {:?} (arrival order, to the first request completed by that read or a later one)", i, have, want),
                    );
                }
            }
        }

        // ---- lock-step twin (C11) ----
        if let Some(t) = &mut self.twin {
            let to = do_read(t, ReadAns::Data(bytes.clone(), vec![]));
            let trs = result_str(&to.result);
            let tgot: Vec<SpecRequest> = to.delivered.iter().map(view_request).collect();
            let ti: Vec<(String, u16)> = to.interim.iter().map(|r| (r.version.clone(), r.code)).collect();
            let ii: Vec<(String, u16)> = o.interim.iter().map(|r| (r.version.clone(), r.code)).collect();
            let same_result = match (&o.result, &to.result) {
                (Ok(Ok(())), Ok(Ok(()))) => true,
                (Ok(Err(ConnectionError::ParseError(a))), Ok(Err(ConnectionError::ParseError(b)))) => classify(a).1 == classify(b).1,
                _ => false,
            };
            // without descriptors in play nothing may carry files; with descriptors the
            // attribution was checked above against the reference, which forgets everything
            // pending at an error
            let nfiles: usize = if self.cfg.max_fds_per_read > 0 { 0 } else { o.delivered.iter().map(|r| r.files.len()).sum() };
            if !same_result || got != tgot || ti != ii || nfiles != 0 {
                return self.fail(
                    "post-error-state-leak",
                    format!(
                        "after a parse error the connection must behave like a fresh one: on the same bytes {:?} the used connection gave {} delivering [{}] interim {:?}, a fresh connection gave {} delivering [{}] interim {:?}",
                        show(&bytes), rs, got.iter().map(show_req).collect::<Vec<_>>().join(" | "), ii,
                        trs, tgot.iter().map(show_req).collect::<Vec<_>>().join(" | "), ti
                    ),
                );
            }
            self.log_delivery(&got, &o, &rs);
            if matches!(&o.result, Ok(Err(ConnectionError::ParseError(_)))) {
                self.twin = Some(Conn::new(self.cfg.limit));
                self.machine = Machine::new(self.cfg.limit, buffer_size());
                self.facts |= 1 << 15;
                // descriptors that came with the rejected input go with it
                self.pending_fds.clear();
                self.acc_fd_lists.clear();
            }
            self.keep(o);
            return;
        }

        // ---- reference agreement (C01/C02/C04/C13) ----
        if events.iter().any(|e| matches!(e, Event::Unjudged)) {
            self.terminal = true;
            return;
        }
        let want_err = events.iter().find_map(|e| if let Event::Error(c) = e { Some(*c) } else { None });
        self.acc_reqs.extend(events.iter().filter_map(|e| if let Event::Request(r) = e { Some(r.clone()) } else { None }));
        self.acc_100.extend(events.iter().filter_map(|e| if let Event::Continue(v) = e { Some(*v) } else { None }));
        if defer {
            // only the return value can be judged now; deliveries are compared at the next pop
            match (&o.result, want_err) {
                (Ok(Ok(())), None) => {}
                (Ok(Err(ConnectionError::ParseError(e))), Some(c)) if class_matches(c, e) => {
                    self.errored = true;
                    self.terminal = true;
                }
                (_, Some(c)) => return self.fail("missing-error", format!("the stream is invalid at this point ({:?}) but try_read returned {} (stream offset {})", c, rs, self.stream_pos)),
                (_, None) => return self.fail("spurious-error", format!("try_read returned {} although the consumed bytes are a valid prefix (stream offset {})", rs, self.stream_pos)),
            }
            self.obs_log.extend_from_slice(b"deferred;");
            return;
        }
        if pop_one {
            match (&o.result, want_err) {
                (Ok(Ok(())), None) => {}
                (Ok(Err(ConnectionError::ParseError(e))), Some(c)) if class_matches(c, e) => {
                    self.errored = true;
                    self.terminal = true;
                }
                (_, Some(c)) => return self.fail("missing-error", format!("the stream is invalid at this point ({:?}) but try_read returned {} (stream offset {})", c, rs, self.stream_pos)),
                (_, None) => return self.fail("spurious-error", format!("try_read returned {} although the consumed bytes are a valid prefix (stream offset {})", rs, self.stream_pos)),
            }
            // the application takes exactly one request (the oldest) and, in answer mode,
            // answers it and writes; everything else keeps waiting
            let popped = match util::catch(|| self.c.conn.pop_parsed_request()) {
                Ok(p) => p,
                Err(p) => return self.fail("panic", format!("pop_parsed_request: {}", p)),
            };
            let want = if self.acc_reqs.is_empty() { None } else { Some(self.acc_reqs.remove(0)) };
            let gotv = popped.as_ref().map(view_request);
            if gotv != want {
                return self.fail("delivery-mismatch", format!("the application popped one request and got {}, the oldest undelivered request of the stream is {} (stream offset {})", gotv.as_ref().map(show_req).unwrap_or_else(|| "none".into()), want.as_ref().map(show_req).unwrap_or_else(|| "none".into()), self.stream_pos));
            }
            if let Some(mut r) = popped {
                if self.cfg.max_fds_per_read > 0 {
                    let have: Vec<RawFd> = r.files.iter().map(|f| f.as_raw_fd()).collect();
                    let wantf = self.acc_fd_lists.pop_front().unwrap_or_default();
                    if have != wantf {
                        return self.fail("fd-attribution", format!("the single popped request carries descriptors {:?}, expected {:?}", have, wantf));
                    }
                }
                self.delivered_count += 1;
                self.delivered_files.append(&mut r.files);
                self.canon[0].extend_from_slice(show_req(&view_request(&r)).as_bytes());
                self.canon[0].push(b';');
                if self.cfg.answer_requests {
                    if let Err(p) = util::catch(|| self.c.conn.enqueue_response(answer_response())) {
                        return self.fail("panic", format!("enqueue_response panicked: {}", p));
                    }
                    let (rs2, garbage, wmax, derr) = drain_output(&mut self.c);
                    if wmax > 1 {
                        return self.fail("stream-call-count", format!("one try_write made {} write calls", wmax));
                    }
                    if let Some(e) = derr.or(garbage) {
                        return self.fail("drain", e);
                    }
                    let (interim, answers) = split_answers(rs2);
                    let got_100: Vec<(String, u16)> = interim.iter().map(|r| (r.version.clone(), r.code)).collect();
                    let want_100: Vec<(String, u16)> = std::mem::take(&mut self.acc_100).iter().map(|v| (if *v == Version::H10 { "HTTP/1.0".to_string() } else { "HTTP/1.1".to_string() }, 100u16)).collect();
                    if got_100 != want_100 || answers != 1 {
                        return self.fail("interim-100", format!("after popping and answering one request the connection wrote {:?} and {} answers; expected {:?} and 1 answer", got_100, answers, want_100));
                    }
                    for (v, c) in &got_100 {
                        self.canon[1].extend_from_slice(format!("{} {};", v, c).as_bytes());
                    }
                }
            }
            self.obs_log.extend_from_slice(b"popped-one;");
            return;
        }
        let all_reqs: Vec<SpecRequest> = std::mem::take(&mut self.acc_reqs);
        let want_reqs: Vec<&SpecRequest> = all_reqs.iter().collect();
        let want_100: Vec<Version> = std::mem::take(&mut self.acc_100);
        if got.len() != want_reqs.len() || got.iter().zip(want_reqs.iter()).any(|(a, b)| a != *b) {
            return self.fail(
                "delivery-mismatch",
                format!(
                    "after consuming {:?} (stream offset {}), delivered [{}] but the stream contains [{}]",
                    show(&bytes), self.stream_pos,
                    got.iter().map(show_req).collect::<Vec<_>>().join(" | "),
                    want_reqs.iter().map(|r| show_req(r)).collect::<Vec<_>>().join(" | ")
                ),
            );
        }
        match (&o.result, want_err) {
            (Ok(Ok(())), None) => {}
            (Ok(Err(ConnectionError::ParseError(e))), Some(c)) => {
                if !class_matches(c, e) {
                    return self.fail(
                        "error-kind",
                        format!("first offending element is {:?} but try_read reported ParseError({}) at stream offset {}", c, classify(e).1, self.stream_pos),
                    );
                }
            }
            (_, Some(c)) => {
                return self.fail("missing-error", format!("the stream is invalid at this point ({:?}) but try_read returned {} (stream offset {})", c, rs, self.stream_pos));
            }
            (_, None) => {
                return self.fail("spurious-error", format!("try_read returned {} although the consumed bytes are a valid prefix (stream offset {}, bytes {:?})", rs, self.stream_pos, show(&bytes)));
            }
        }
        let got_100: Vec<(String, u16, usize)> = o.interim.iter().map(|r| (r.version.clone(), r.code, r.body.len())).collect();
        let want_100s: Vec<(String, u16, usize)> = want_100
            .iter()
            .map(|v| (if *v == Version::H10 { "HTTP/1.0".to_string() } else { "HTTP/1.1".to_string() }, 100u16, 0usize))
            .collect();
        if o.write_deferred {
            // what is due stays due: compared when the output is finally written
            self.acc_100 = want_100;
            self.log_delivery(&got, &o, &rs);
            if want_err.is_some() {
                self.errored = true;
                self.terminal = true;
            }
            self.keep(o);
            return;
        }
        if !o.write_failed && got_100 != want_100s {
            return self.fail(
                "interim-100",
                format!("interim responses queued by this read: {:?}, expected {:?} (100 Continue exactly for each header block completed here with Expect and 0 < Content-Length <= limit)", got_100, want_100s),
            );
        }
        self.log_delivery(&got, &o, &rs);
        if want_err.is_some() {
            self.errored = true;
            if self.cfg.continue_after_error {
                self.twin = Some(Conn::new(self.cfg.limit));
                self.machine = Machine::new(self.cfg.limit, buffer_size());
                self.facts |= 1 << 15;
                self.pending_fds.clear();
                self.acc_fd_lists.clear();
            } else {
                self.terminal = true;
            }
        }
        self.keep(o);
    }

    fn log_delivery(&mut self, got: &[SpecRequest], o: &ReadObs, rs: &str) {
        for r in got {
            self.obs_log.extend_from_slice(show_req(r).as_bytes());
            self.obs_log.push(b';');
            self.canon[0].extend_from_slice(show_req(r).as_bytes());
            self.canon[0].push(b';');
            self.impl_facts |= 1 << 0;
            if r.body.is_some() {
                self.impl_facts |= 1 << 1;
            }
        }
        for r in &o.interim {
            self.canon[1].extend_from_slice(format!("{} {};", r.version, r.code).as_bytes());
            self.obs_log.extend_from_slice(format!("{} {};", r.version, r.code).as_bytes());
            self.impl_facts |= 1 << 8;
        }
        if rs != "Ok" {
            self.obs_log.extend_from_slice(rs.as_bytes());
            self.obs_log.push(b';');
            self.canon[2].extend_from_slice(rs.as_bytes());
            self.canon[2].push(b';');
        }
        if let Ok(Err(ConnectionError::ParseError(e))) = &o.result {
            self.impl_facts |= match classify(e).0 {
                Some(ErrClass::RequestLine) => 1 << 2,
                Some(ErrClass::Method) => 1 << 3,
                Some(ErrClass::Uri) => 1 << 4,
                Some(ErrClass::Version) => 1 << 5,
                Some(ErrClass::Header) | Some(ErrClass::AcceptEncoding) => 1 << 6,
                Some(ErrClass::Payload(_, _)) => 1 << 7,
                None => 0,
            };
        }
        match self.c.conn.verif_cursor().0 {
            1 => self.impl_facts |= 1 << 9,
            2 => self.impl_facts |= 1 << 10,
            _ => {}
        }
        if self.c.read_cursor() > 0 {
            self.impl_facts |= 1 << 11;
        }
    }

    /// Keeps delivered requests alive until the end of the run (their descriptors are checked
    /// at the end).
    fn keep(&mut self, o: ReadObs) {
        self.delivered_count += o.delivered.len();
        for mut r in o.delivered {
            self.delivered_files.append(&mut r.files);
        }
    }

    pub fn key(&self) -> u128 {
        let d = self.c.conn.verif_digest();
        let t = self.twin.as_ref().map(|t| t.conn.verif_digest()).unwrap_or_default();
        let flags = [self.terminal as u8, self.errored as u8, self.twin.is_some() as u8, self.pending_fds.len() as u8, self.acc_reqs.len() as u8, self.acc_100.len() as u8, self.acc_fd_lists.len() as u8, self.acc_fd_lists.iter().map(|l| l.len()).sum::<usize>() as u8, self.defer_streak as u8, self.had_wfail as u8, self.c.owed_answers as u8];
        let pos = if self.cfg.stream.is_some() { self.stream_pos as u64 } else { 0 };
        util::hash128(&[&d, &t, &self.machine.digest(), if self.cfg.stream.is_some() { &[] } else { &self.queue }, &flags, &pos.to_le_bytes()])
    }

    pub fn enabled(&self) -> Vec<Act> {
        if self.terminal || self.violation.is_some() {
            return vec![];
        }
        let mut v = vec![];
        let fmax = if self.pending_fds.len() >= self.cfg.max_pending_fds { 0 } else { self.cfg.max_fds_per_read };
        if self.cfg.stream.is_none() && self.queue.len() <= self.cfg.offer_when_queued_le {
            // phase the stream will be in once the bytes already waiting have been consumed
            let mut look = self.machine.clone();
            let mut sink = vec![];
            for b in &self.queue {
                look.feed(*b, &mut sink);
            }
            for (i, p) in self.cfg.pieces.iter().enumerate() {
                let ok = if self.cfg.robust_only {
                    match self.c.conn.verif_cursor().0 {
                        2 => matches!(p.class, Class::Body | Class::Blank),
                        1 => matches!(p.class, Class::Header | Class::Blank | Class::Stray) || (p.class == Class::ReqLine && i == 0),
                        _ => matches!(p.class, Class::ReqLine | Class::Blank | Class::Stray) || (p.class == Class::Header && i % 3 == 0),
                    }
                } else if !self.cfg.judge_errors {
                    // error-free streams only (C12): request lines at a request boundary,
                    // header lines and the blank line inside a header block, bodies in bodies
                    if look.in_body() {
                        p.class == Class::Body
                    } else if look.in_headers() {
                        matches!(p.class, Class::Header | Class::Blank)
                    } else {
                        p.class == Class::ReqLine
                    }
                } else if look.in_body() {
                    matches!(p.class, Class::Body)
                } else if look.in_headers() {
                    matches!(p.class, Class::Header | Class::Blank | Class::Stray) || (p.class == Class::ReqLine && i == 0)
                } else {
                    matches!(p.class, Class::ReqLine | Class::Blank | Class::Stray) || (self.twin.is_some() && p.class == Class::Header)
                };
                if ok {
                    v.push(Act::Offer(i as u16));
                }
            }
        }
        let space = buffer_size().saturating_sub(self.c.read_cursor()).max(1);
        let kmax = self.queue.len().min(space);
        for k in 1..=kmax {
            for f in 0..=fmax {
                v.push(Act::Read(k as u16, f));
                // bounded: at most 3 reads in a row without the application looking, at most
                // 2 requests / interim responses left waiting
                if self.cfg.allow_defer && self.defer_streak < 3 && self.acc_reqs.len() < 2 && self.acc_100.len() < 2 {
                    v.push(Act::Read(k as u16 | DEFER, f));
                }
                if self.cfg.allow_defer && self.defer_streak < 3 && self.acc_reqs.len() < 3 && self.acc_100.len() < 2 {
                    v.push(Act::Read(k as u16 | POP_ONE, f));
                }
                if self.cfg.write_shorts && (f == 0 || self.cfg.write_flags_with_fds) && self.defer_streak < 3 && self.acc_100.len() < 2 && self.c.owed_answers < 2 {
                    v.push(Act::Read(k as u16 | WSHORT, f));
                }
                if self.cfg.write_faults && (f == 0 || self.cfg.write_flags_with_fds) && !self.had_wfail {
                    v.push(Act::Read(k as u16 | WFAIL, f));
                }
            }
        }
        if self.cfg.empty_reads {
            v.push(Act::Empty(0));
            v.push(Act::Empty(1));
        }
        if self.cfg.eof {
            for f in 0..=fmax {
                v.push(Act::Eof(f));
            }
        }
        v
    }

    /// End-of-run descriptor conservation check (C12): after dropping every delivered request and
    /// the connection, every descriptor handed over is closed exactly once and nothing else is.
    /// The application finally pops and writes what deferred reads left behind.
    fn final_settle(&mut self) {
        if self.violation.is_some() || (self.acc_reqs.is_empty() && self.acc_100.is_empty() && self.acc_fd_lists.is_empty() && self.c.owed_answers == 0) {
            return;
        }
        let mut delivered = vec![];
        while let Ok(Some(r)) = util::catch(|| self.c.conn.pop_parsed_request()) {
            delivered.push(r);
            if delivered.len() > 10_000 {
                break;
            }
        }
        if self.cfg.answer_requests {
            for _ in 0..delivered.len() {
                let _ = util::catch(|| self.c.conn.enqueue_response(answer_response()));
            }
        }
        let (interim, garbage, _, derr) = drain_output(&mut self.c);
        let (interim, answers) = split_answers(interim);
        let owed = std::mem::take(&mut self.c.owed_answers);
        if self.cfg.answer_requests && answers != delivered.len() + owed && derr.is_none() && garbage.is_none() {
            return self.fail("drain", format!("the application answered {} popped requests but {} answers came out of the connection", delivered.len() + owed, answers));
        }
        let got: Vec<SpecRequest> = delivered.iter().map(view_request).collect();
        let want = std::mem::take(&mut self.acc_reqs);
        if got != want {
            return self.fail("delivery-mismatch", format!("requests popped after deferred reads: [{}], the stream contains [{}]", got.iter().map(show_req).collect::<Vec<_>>().join(" | "), want.iter().map(show_req).collect::<Vec<_>>().join(" | ")));
        }
        if self.cfg.max_fds_per_read > 0 {
            for (i, r) in delivered.iter().enumerate() {
                let have: Vec<RawFd> = r.files.iter().map(|f| f.as_raw_fd()).collect();
                let wantf = self.acc_fd_lists.pop_front().unwrap_or_default();
                if have != wantf {
                    return self.fail("fd-attribution", format!("request #{} popped after deferred reads carries descriptors {:?}, expected {:?} (they belong to the first request completed by the read they arrived with or a later one)", i, have, wantf));
                }
            }
        }
        if let Some(e) = derr.or(garbage) {
            return self.fail("drain", e);
        }
        let got_100: Vec<(String, u16)> = interim.iter().map(|r| (r.version.clone(), r.code)).collect();
        let want_100: Vec<(String, u16)> = std::mem::take(&mut self.acc_100).iter().map(|v| (if *v == Version::H10 { "HTTP/1.0".to_string() } else { "HTTP/1.1".to_string() }, 100u16)).collect();
        if got_100 != want_100 {
            return self.fail("interim-100", format!("interim responses written after deferred reads: {:?}, expected {:?} (one 100 Continue per qualifying header block, whenever the application gets round to writing)", got_100, want_100));
        }
        self.delivered_count += delivered.len();
        for mut r in delivered {
            self.delivered_files.append(&mut r.files);
        }
    }

    pub fn finish_fds(mut self) -> Option<(String, String)> {
        self.final_settle();
        if self.pipes.is_empty() {
            return self.violation.take();
        }
        let mut verdict = self.violation.take();
        let pipes = std::mem::take(&mut self.pipes);
        // While requests and connection are alive, every read end must still be open.
        for (r, _) in &pipes {
            // (descriptors pending at a parse error are C11's business)
            if unsafe { libc::fcntl(*r, libc::F_GETFD) } < 0 && verdict.is_none() && !self.errored {
                verdict = Some(("fd-closed-early".into(), format!("descriptor {} was closed while its owner (request or connection) is still alive", r)));
            }
        }
        drop(std::mem::take(&mut self.delivered_files));
        let Exec { c, twin, .. } = self;
        drop(c);
        drop(twin);
        for (r, w) in &pipes {
            let still_open = unsafe { libc::fcntl(*r, libc::F_GETFD) } >= 0;
            if still_open {
                if verdict.is_none() {
                    verdict = Some(("fd-leak".into(), format!("descriptor {} is still open after the request and connection owning it were dropped", r)));
                }
                unsafe {
                    libc::close(*r);
                }
            }
            // the write end is ours and must still be valid (a double close of a read end would
            // have hit a reused number)
            if unsafe { libc::fcntl(*w, libc::F_GETFD) } < 0 && verdict.is_none() {
                verdict = Some(("fd-double-close".into(), format!("harness descriptor {} was closed by the subject (double close of a recycled number)", w)));
            }
            unsafe {
                libc::close(*w);
            }
        }
        verdict
    }
}

impl System for Cfg {
    type A = Act;
    fn enc(a: Act) -> u64 {
        enc(a)
    }
    fn dec(x: u64) -> Act {
        dec(x)
    }
    fn run(&self, path: &[Act]) -> Outcome<Act> {
        let mut e = Exec::new(self, false);
        for a in path {
            e.step(*a);
            if e.violation.is_some() {
                break;
            }
        }
        let key = e.key();
        // dead bytes of the receive buffer: not supposed to matter, but a defect can make them
        // matter (stale bytes read as input), so a few representatives per state are kept
        let tail = e.c.conn.verif_dead_tail();
        let aux = if tail.iter().all(|b| *b == 0) { 0 } else { util::hash64(&[&tail]) | 1 };
        let enabled = e.enabled();
        let nontrivial = e.machine.partial_line_len() > 0 || e.machine.in_body() || e.twin.is_some();
        let obs = util::hash64(&[&e.obs_log, if self.stream.is_some() { &[] } else { &e.consumed }]);
        let (facts, impl_facts) = (e.facts, e.impl_facts);
        let v = e.finish_fds();
        let violation = v.map(|(sig, detail)| Violation {
            signature: sig,
            detail,
            replay: json!({"engine": "connx", "config": self.to_json(), "actions": path.iter().map(|a| enc(*a)).collect::<Vec<_>>(),
                           "actions_readable": path.iter().map(|a| format!("{:?}", a)).collect::<Vec<_>>()}),
        });
        Outcome { key, enabled, violation, obs, nontrivial, facts, impl_facts, aux }
    }
    fn trace(&self, path: &[Act]) -> Value {
        let mut e = Exec::new(self, true);
        for a in path {
            e.step(*a);
            if e.violation.is_some() {
                break;
            }
        }
        let steps = std::mem::take(&mut e.steps);
        let v = e.finish_fds();
        json!({"steps": steps, "violation": v.map(|(s, d)| json!({"signature": s, "detail": d}))})
    }
    fn fact_names(&self) -> Vec<&'static str> {
        FACTS.to_vec()
    }
    fn impl_fact_names(&self) -> Vec<&'static str> {
        IMPL_FACTS.to_vec()
    }
    fn replay_of(&self, path: &[Act]) -> Value {
        schedule_replay(self, path)
    }
}

/// Replays a stored connx violation; returns (reproduced?, trace).
pub fn replay(v: &Value) -> (bool, Value) {
    let cfg = Cfg::from_json(&v["config"]);
    let path: Vec<Act> = v["actions"].as_array().unwrap().iter().map(|x| dec(x.as_u64().unwrap())).collect();
    let t = cfg.trace(&path);
    (!t["violation"].is_null(), t)
}

/// Stateless execution of one schedule on a fresh connection (no explorer, no digest in the
/// verdict): returns the violation, the observation hash and the number of delivered requests.
pub fn run_schedule(cfg: &Cfg, acts: &[Act]) -> (Option<(String, String)>, u64, usize) {
    let mut e = Exec::new(cfg, false);
    for a in acts {
        e.step(*a);
        if e.violation.is_some() || e.terminal {
            break;
        }
    }
    let obs = util::hash64(&[&e.obs_log]);
    let n = e.delivered_count;
    (e.finish_fds(), obs, n)
}

pub fn schedule_replay(cfg: &Cfg, acts: &[Act]) -> Value {
    json!({"engine": "connx", "config": cfg.to_json(), "actions": acts.iter().map(|a| enc(*a)).collect::<Vec<_>>(),
           "actions_readable": acts.iter().map(|a| format!("{:?}", a)).collect::<Vec<_>>()})
}

/// Stateless execution where the stream arrives in the given segments: each segment is read
/// until drained (several `try_read`s when it exceeds the space offered), optionally preceded
/// by an empty read, then the next one arrives. Returns the verdict, observation hash, number
/// of delivered requests and the action list actually executed (for replays).
pub fn run_segments(cfg: &Cfg, segments: &[usize], empties: bool) -> (Option<(String, String)>, u64, usize, Vec<Act>) {
    let mut e = Exec::new(cfg, false);
    let mut acts = vec![];
    'outer: for (i, seg) in segments.iter().enumerate() {
        if empties {
            let a = Act::Empty((i % 2) as u8);
            acts.push(a);
            e.step(a);
            if e.violation.is_some() {
                break;
            }
        }
        let mut left = *seg;
        while left > 0 && !e.queue.is_empty() {
            let a = Act::Read(left.min(KMASK as usize) as u16, 0);
            let before = e.stream_pos;
            acts.push(a);
            e.step(a);
            let took = e.stream_pos - before;
            if e.violation.is_some() || e.terminal {
                break 'outer;
            }
            if took == 0 {
                e.violation = Some(("no-progress".into(), "try_read consumed nothing although bytes had arrived and no error was reported".into()));
                break 'outer;
            }
            left -= took.min(left);
        }
    }
    let obs = util::hash64(&[&e.canon[0], &e.canon[1], &e.canon[2]]);
    let n = e.delivered_count;
    (e.finish_fds(), obs, n, acts)
}

/// Digest-free companion of the alphabet graphs: every sequence of up to `max_len` pieces is
/// turned into a concrete stream and run under greedy reads, one-byte reads and every single
/// cut (with an empty read before each segment on odd cuts); nothing is de-duplicated, so state
/// that the cfg-guarded digest does not see cannot hide. All oracles of the configuration
/// (reference agreement, twin, deferred pops) apply to every run.
pub fn stateless_sequences(cfg: &Cfg, max_len: u32, workers: usize) -> crate::par::Tally {
    let n = cfg.pieces.len() as u64;
    let mut total = 0u64;
    for d in 1..=max_len {
        total += n.pow(d);
    }
    let block = 16u64;
    let cfg = cfg.clone();
    crate::par::par_enum(
        (total + block - 1) / block,
        workers,
        300,
        move |blk, t| {
            for idx in blk * block..((blk + 1) * block).min(total) {
                let mut i = idx;
                let mut d = 1;
                while i >= n.pow(d) {
                    i -= n.pow(d);
                    d += 1;
                }
                let mut stream = vec![];
                let mut names = vec![];
                for _ in 0..d {
                    let p = &cfg.pieces[(i % n) as usize];
                    stream.extend_from_slice(&p.bytes);
                    names.push(p.name.clone());
                    i /= n;
                }
                let mut c = cfg.clone();
                c.pieces = vec![];
                c.stream = Some(stream.clone());
                c.label = format!("{} / stateless {:?}", cfg.label, names);
                let len = stream.len();
                let mut scheds: Vec<(Vec<usize>, bool)> = vec![(vec![len], false), (vec![1; len], false)];
                for cut in 1..len {
                    scheds.push((vec![cut, len - cut], cut % 2 == 1));
                }
                let mut greedy_obs = None;
                for (si, (segs, empties)) in scheds.iter().enumerate() {
                    let (v, obs, _, acts) = run_segments(&c, segs, *empties && cfg.empty_reads);
                    t.evals += 1;
                    if d >= 2 {
                        t.nontrivial += 1;
                    }
                    if let Some((sig, detail)) = v {
                        t.violate(&sig, format!("[pieces {:?}, segments {:?}] {}", names, &segs[..segs.len().min(4)], detail), schedule_replay(&c, &acts));
                        break;
                    }
                    // confluence without any reference: same observations as the unsplit run
                    // (only meaningful when errors end the run, i.e. not in twin mode)
                    if !cfg.continue_after_error && !cfg.robust_only {
                        match greedy_obs {
                            None if si == 0 => greedy_obs = Some(obs),
                            Some(g) if g != obs => {
                                t.violate("segmentation-dependent-delivery", format!("pieces {:?}: segments {:?} give a different observation sequence than the unsplit stream", names, &segs[..segs.len().min(4)]), schedule_replay(&c, &acts));
                                break;
                            }
                            _ => {}
                        }
                    }
                }
                if idx == 4321 {
                    t.sample(json!({"pieces": names, "stream": show(&stream), "schedules": scheds.len()}));
                }
            }
        },
        |blk| format!("stateless piece sequences block {}", blk),
    )
}

pub fn record_stateless(part: &mut crate::util::Part, label: &str, t: &crate::par::Tally) {
    part.add("stateless_runs", t.evals);
    part.add("traces_validated_against_impl", t.evals);
    part.add("transitions", t.evals);
    part.push("stateless_companions", json!({"graph": label, "runs": t.evals, "distinct_outcome_classes": t.outcomes.len()}));
    for v in &t.violations {
        part.violations.push(v.clone());
    }
    for e in &t.machinery_errors {
        part.machinery_errors.push(format!("{}: {}", label, e));
    }
    for smp in t.samples.iter().take(1) {
        part.push("samples", json!({"stateless": smp}));
    }
}
