//! Write-path product (C06): real `HttpConnection<ScriptedStream>` against a deque of
//! serialized responses, over all interleavings of enqueue and write with every stream answer.

use crate::explore::{Outcome, System};
use crate::stream::{Ctl, ScriptedStream, WriteAns};
use crate::util::{self, show, Violation};
use micro_http::{Body, ConnectionError, HttpConnection, Response, StatusCode, Version};
use serde_json::{json, Value};
use std::cell::RefCell;
use std::collections::VecDeque;
use std::rc::Rc;

#[derive(Clone, Copy, Debug, PartialEq, Eq)]
pub enum WAct {
    Enqueue(u8),
    /// stream accepts exactly k bytes
    Accept(u32),
    Zero,
    Eintr,
    Eagain,
    Epipe,
    /// try_write while nothing is pending
    WriteIdle,
    /// try_read with a scripted stream answer (configurations with `max_reads` > 0):
    /// 0 would-block, 1 end of input, 2 a complete Expect request head (body awaited: the
    /// connection queues its own 100 Continue), 3 that body, 4 a complete plain request, 5 a
    /// malformed request line. Requests delivered are popped at once.
    Read(u8),
}

fn enc(a: WAct) -> u64 {
    match a {
        WAct::Enqueue(r) => 1 << 32 | r as u64,
        WAct::Accept(k) => 2 << 32 | k as u64,
        WAct::Zero => 3 << 32,
        WAct::Eintr => 4 << 32,
        WAct::Eagain => 5 << 32,
        WAct::Epipe => 6 << 32,
        WAct::WriteIdle => 7 << 32,
        WAct::Read(k) => 8 << 32 | k as u64,
    }
}
fn dec(x: u64) -> WAct {
    match x >> 32 {
        1 => WAct::Enqueue(x as u8),
        2 => WAct::Accept(x as u32),
        3 => WAct::Zero,
        4 => WAct::Eintr,
        5 => WAct::Eagain,
        6 => WAct::Epipe,
        7 => WAct::WriteIdle,
        8 => WAct::Read(x as u8),
        _ => panic!("bad code"),
    }
}

#[derive(Clone)]
pub struct WCfg {
    pub label: String,
    /// body sizes of the 200 responses in the menu; entry 0 of the menu is always 100 Continue
    pub bodies: Vec<usize>,
    pub max_enqueues: usize,
    /// enumerate every accepted length (true) or only {1, 2, len-1, len} plus a middle one
    pub all_lengths: bool,
    /// two extra body-less 204 responses that differ only in their headers
    pub bodyless_variants: bool,
    /// try_read calls interleaved with the enqueues and writes (0 = none)
    pub max_reads: usize,
}

pub const EXPECT_HEAD: &[u8] = b"PUT /e HTTP/1.1\r\nExpect: 100-continue\r\nContent-Length: 2\r\n\r\n";

impl WCfg {
    pub fn response(&self, i: u8) -> Response {
        if i == 0 {
            return Response::new(Version::Http11, StatusCode::Continue);
        }
        if i as usize > self.bodies.len() {
            let mut r = Response::new(Version::Http11, StatusCode::NoContent);
            if i as usize == self.bodies.len() + 2 {
                r.set_deprecation();
                r.set_server("other");
            }
            return r;
        }
        let n = self.bodies[i as usize - 1];
        let mut r = Response::new(Version::Http10, StatusCode::OK);
        let body: Vec<u8> = (0..n).map(|j| b'a' + ((j + i as usize) % 26) as u8).collect();
        r.set_body(Body::new(body));
        r
    }
    fn to_json(&self) -> Value {
        json!({"label": self.label, "bodies": self.bodies, "max_enqueues": self.max_enqueues, "all_lengths": self.all_lengths, "bodyless_variants": self.bodyless_variants, "max_reads": self.max_reads})
    }
    pub fn from_json(v: &Value) -> WCfg {
        WCfg {
            label: v["label"].as_str().unwrap().into(),
            bodies: v["bodies"].as_array().unwrap().iter().map(|x| x.as_u64().unwrap() as usize).collect(),
            max_enqueues: v["max_enqueues"].as_u64().unwrap() as usize,
            all_lengths: v["all_lengths"].as_bool().unwrap(),
            bodyless_variants: v["bodyless_variants"].as_bool().unwrap_or(false),
            max_reads: v["max_reads"].as_u64().unwrap_or(0) as usize,
        }
    }
}

pub const FACTS: [&str; 11] = [
    "short_write",
    "enqueue_while_partially_written",
    "eintr_with_partial_buffer",
    "failure_with_two_or_more_queued",
    "write_attempt_with_nothing_pending",
    "complete_write",
    "enqueue_after_discard",
    "zero_length_write_answer",
    "read_with_partially_written_head",
    "own_100_continue_queued_behind_pending_output",
    "end_of_input_with_pending_output",
];

struct WExec<'a> {
    cfg: &'a WCfg,
    conn: HttpConnection<ScriptedStream>,
    ctl: Rc<RefCell<Ctl>>,
    /// reference: unsent bytes of each queued response, head first
    refq: VecDeque<Vec<u8>>,
    head_started: bool,
    expected_accepted: Vec<u8>,
    enqueues: usize,
    reads: usize,
    /// the scripted input stands inside a request: the Expect request's body is awaited
    awaiting_body: bool,
    discarded_once: bool,
    violation: Option<(String, String)>,
    facts: u64,
    obs: Vec<u8>,
    steps: Vec<Value>,
    tracing: bool,
}

impl<'a> WExec<'a> {
    fn new(cfg: &'a WCfg, tracing: bool) -> Self {
        let (s, ctl) = ScriptedStream::new();
        WExec {
            cfg,
            conn: HttpConnection::new(s),
            ctl,
            refq: VecDeque::new(),
            head_started: false,
            expected_accepted: vec![],
            enqueues: 0,
            reads: 0,
            awaiting_body: false,
            discarded_once: false,
            violation: None,
            facts: 0,
            obs: vec![],
            steps: vec![],
            tracing,
        }
    }
    fn fail(&mut self, sig: &str, d: String) {
        if self.violation.is_none() {
            self.violation = Some((sig.into(), d));
        }
    }
    fn check_pending(&mut self, when: &str) {
        match util::catch(|| self.conn.pending_write()) {
            Ok(p) => {
                if p != !self.refq.is_empty() {
                    self.fail("pending-write-flag", format!("pending_write() = {} {} but {} bytes in {} responses remain unsent", p, when, self.refq.iter().map(|r| r.len()).sum::<usize>(), self.refq.len()));
                }
            }
            Err(p) => self.fail("panic", format!("pending_write panicked: {}", p)),
        }
    }
    fn step(&mut self, a: WAct) {
        self.facts = 0;
        match a {
            WAct::Enqueue(i) => {
                let r = self.cfg.response(i);
                let mut bytes = vec![];
                r.write_all(&mut bytes).unwrap();
                if self.head_started {
                    self.facts |= 1 << 1;
                }
                if self.discarded_once {
                    self.facts |= 1 << 6;
                }
                if let Err(p) = util::catch(|| self.conn.enqueue_response(r)) {
                    return self.fail("panic", format!("enqueue_response panicked: {}", p));
                }
                self.refq.push_back(bytes);
                self.enqueues += 1;
                self.obs.extend_from_slice(format!("enq{};", i).as_bytes());
                if self.tracing {
                    self.steps.push(json!({"action": format!("Enqueue(response {})", i), "serialized_len": self.refq.back().unwrap().len()}));
                }
                self.check_pending("after enqueue");
            }
            WAct::Read(k) => self.read(k),
            _ => self.write(a),
        }
    }
    fn read(&mut self, kind: u8) {
        let ans = match kind {
            0 => crate::stream::ReadAns::Errno(libc::EAGAIN),
            1 => crate::stream::ReadAns::Eof(vec![]),
            2 => crate::stream::ReadAns::Data(EXPECT_HEAD.to_vec(), vec![]),
            3 => crate::stream::ReadAns::Data(b"ab".to_vec(), vec![]),
            4 => crate::stream::ReadAns::Data(b"GET /g HTTP/1.0\r\n\r\n".to_vec(), vec![]),
            _ => crate::stream::ReadAns::Data(b"BAD\r\n".to_vec(), vec![]),
        };
        self.check_pending("before try_read");
        if self.violation.is_some() {
            return;
        }
        {
            let mut c = self.ctl.borrow_mut();
            c.next_read = Some(ans);
            c.next_write = None;
            c.write_default_all = false;
            c.write_calls = 0;
        }
        if self.head_started {
            self.facts |= 1 << 8;
        }
        let r = util::catch(|| self.conn.try_read());
        let rs = match &r {
            Err(p) => format!("PANIC({})", p),
            Ok(Ok(())) => "Ok".to_string(),
            Ok(Err(e)) => format!("{:?}", e),
        };
        self.reads += 1;
        let mut popped = 0;
        if r.is_ok() {
            while let Ok(Some(_)) = util::catch(|| self.conn.pop_parsed_request()) {
                popped += 1;
            }
        }
        self.obs.extend_from_slice(format!("read{}->{}/{};", kind, rs, popped).as_bytes());
        if let Err(p) = &r {
            return self.fail("panic", format!("try_read panicked: {}", p));
        }
        match kind {
            2 | 3 if !matches!(r, Ok(Ok(()))) => {
                // whether this input is acceptable is C02's business, not this check's
                return self.fail("harness", format!("the scripted request was not accepted: {}", rs));
            }
            2 => {
                // the connection answers the expectation itself: its 100 Continue joins the
                // queue behind everything enqueued before (C13 decides when it is due; here it
                // is part of "the enqueued responses in enqueue order")
                let mut bytes = vec![];
                Response::new(Version::Http11, StatusCode::Continue).write_all(&mut bytes).unwrap();
                if !self.refq.is_empty() {
                    self.facts |= 1 << 9;
                }
                self.refq.push_back(bytes);
                self.awaiting_body = true;
            }
            3 => self.awaiting_body = false,
            1 => {
                if !self.refq.is_empty() {
                    self.facts |= 1 << 10;
                }
            }
            _ => {}
        }
        if self.tracing {
            self.steps.push(json!({"action": format!("Read(kind {})", kind), "try_read": rs, "requests_popped": popped, "reference_queue_lens": self.refq.iter().map(|q| q.len()).collect::<Vec<_>>()}));
        }
        // reading never writes, loses or reorders output: only a failed write discards it
        let wcalls = self.ctl.borrow().write_calls;
        let acc = self.ctl.borrow().accepted.clone();
        let _ = wcalls;
        if acc != self.expected_accepted {
            return self.fail("accepted-bytes", format!("try_read made the stream accept {} bytes that are not the expected prefix of the enqueued responses", acc.len()));
        }
        self.check_pending("after try_read");
    }
    fn write(&mut self, a: WAct) {
        let ans = match a {
            WAct::Accept(k) => Some(WriteAns::Accept(k as usize)),
            WAct::Zero => Some(WriteAns::Zero),
            WAct::Eintr => Some(WriteAns::Errno(libc::EINTR)),
            WAct::Eagain => Some(WriteAns::Errno(libc::EAGAIN)),
            WAct::Epipe => Some(WriteAns::Errno(libc::EPIPE)),
            _ => None,
        };
        self.check_pending("before try_write");
        if self.violation.is_some() {
            return;
        }
        {
            let mut c = self.ctl.borrow_mut();
            c.next_write = ans.clone();
            c.write_default_all = false;
            c.write_calls = 0;
            c.recv_calls = 0;
            c.read_calls = 0;
            c.unscripted_write = 0;
            c.last_offered.clear();
        }
        let before = self.ctl.borrow().accepted.len();
        let r = util::catch(|| self.conn.try_write());
        let (wcalls, others, offered, accepted_now) = {
            let c = self.ctl.borrow();
            (c.write_calls, c.recv_calls + c.read_calls + c.flush_calls * 0, c.last_offered.clone(), c.accepted[before..].to_vec())
        };
        let rs = match &r {
            Err(p) => format!("PANIC({})", p),
            Ok(Ok(())) => "Ok".to_string(),
            Ok(Err(e)) => format!("{:?}", e),
        };
        if self.tracing {
            self.steps.push(json!({"action": format!("{:?}", a), "try_write": rs, "write_calls": wcalls, "offered_len": offered.len(), "accepted_now": accepted_now.len(),
                "reference_head_remaining": self.refq.front().map(|h| h.len())}));
        }
        self.obs.extend_from_slice(format!("{:?}->{};", a, rs).as_bytes());
        if let Err(p) = &r {
            return self.fail("panic", format!("try_write panicked: {}", p));
        }
        if others != 0 {
            return self.fail("stream-call-count", format!("try_write made {} receive calls", others));
        }
        if self.refq.is_empty() {
            self.facts |= 1 << 4;
            if wcalls != 0 {
                return self.fail("idle-write-touched-stream", format!("try_write with nothing pending made {} write calls on the stream", wcalls));
            }
            if !matches!(r, Ok(Err(ConnectionError::InvalidWrite))) {
                return self.fail("idle-write-result", format!("try_write with nothing pending must report InvalidWrite, got {}", rs));
            }
            self.check_pending("after idle try_write");
            return;
        }
        if wcalls != 1 {
            return self.fail("stream-call-count", format!("try_write made {} write calls (exactly one expected while output is pending)", wcalls));
        }
        // C06: what the stream accepts must at all times extend a prefix of the concatenation of
        // the serialized responses in enqueue order - so whatever is offered must be a non-empty
        // prefix of everything still unsent (it may stop short of, or run past, a response boundary)
        let unsent: Vec<u8> = self.refq.iter().flat_map(|r| r.iter().cloned()).collect();
        if offered.is_empty() || !unsent.starts_with(&offered) {
            return self.fail(
                "offered-slice",
                format!("the slice offered to the stream ({} bytes: {:?}) is not a non-empty prefix of the unsent bytes of the enqueued responses ({} bytes: {:?})", offered.len(), show(&offered[..offered.len().min(40)]), unsent.len(), show(&unsent[..unsent.len().min(40)])),
            );
        }
        match a {
            WAct::Accept(_) => {
                // what the stream really took (it cannot take more than it was offered)
                let mut k = accepted_now.len();
                self.expected_accepted.extend_from_slice(&offered[..k]);
                if k == 0 {
                    return self.fail("harness", "scripted stream accepted nothing on Accept".into());
                }
                while k > 0 {
                    let hl = self.refq.front().map(|h| h.len()).unwrap_or(0);
                    if hl == 0 {
                        break;
                    }
                    if k >= hl {
                        self.refq.pop_front();
                        k -= hl;
                        self.head_started = false;
                        self.facts |= 1 << 5;
                    } else {
                        self.refq.front_mut().unwrap().drain(..k);
                        k = 0;
                        self.head_started = true;
                        self.facts |= 1 << 0;
                    }
                }
                if !matches!(r, Ok(Ok(()))) {
                    return self.fail("write-result", format!("the stream accepted {} bytes but try_write returned {}", accepted_now.len(), rs));
                }
            }
            WAct::Eintr => {
                if self.head_started {
                    self.facts |= 1 << 2;
                }
                // the head response has now been serialised; nothing is lost
                // (C06 names only zero-byte and non-interrupt errors as fatal: whatever an
                // interrupted call returns, it must not report the connection closed or an
                // invalid write; that nothing was lost is checked by the bytes that follow)
                if matches!(r, Ok(Err(ConnectionError::ConnectionClosed))) || matches!(r, Ok(Err(ConnectionError::InvalidWrite))) {
                    return self.fail("eintr-result", format!("an interrupted write is not fatal (retry later), got {}", rs));
                }
            }
            WAct::Zero | WAct::Eagain | WAct::Epipe => {
                if self.refq.len() >= 2 {
                    self.facts |= 1 << 3;
                }
                if a == WAct::Zero {
                    self.facts |= 1 << 7;
                }
                self.refq.clear();
                self.head_started = false;
                self.discarded_once = true;
                if !matches!(r, Ok(Err(ConnectionError::ConnectionClosed))) {
                    return self.fail("failure-result", format!("a failed write ({:?}) must report ConnectionClosed, got {}", a, rs));
                }
            }
            _ => {}
        }
        let acc = self.ctl.borrow().accepted.clone();
        if acc != self.expected_accepted {
            return self.fail("accepted-bytes", format!("bytes accepted by the stream ({} bytes) are not the expected prefix of the enqueued responses ({} bytes)", acc.len(), self.expected_accepted.len()));
        }
        self.check_pending("after try_write");
    }
    fn enabled(&self) -> Vec<WAct> {
        if self.violation.is_some() {
            return vec![];
        }
        let mut v = vec![];
        if self.enqueues < self.cfg.max_enqueues {
            let menu = self.cfg.bodies.len() + if self.cfg.bodyless_variants { 2 } else { 0 };
            for i in 0..=menu {
                v.push(WAct::Enqueue(i as u8));
            }
        }
        if self.reads < self.cfg.max_reads {
            let kinds: &[u8] = if self.awaiting_body { &[0, 1, 3] } else { &[0, 1, 2, 4, 5] };
            for k in kinds {
                v.push(WAct::Read(*k));
            }
        }
        match self.refq.front() {
            None => v.push(WAct::WriteIdle),
            Some(h) => {
                let n = h.len();
                if self.cfg.all_lengths || n <= 8 {
                    for k in 1..=n {
                        v.push(WAct::Accept(k as u32));
                    }
                } else if n > 1000 {
                    // large remainders: coarse menu (keeps the graph shallow), incl. the sizes
                    // that typical caps / buffers would use
                    let mut ks = vec![n / 2, n - 1, n];
                    for c in [1024usize, 4096, 8192] {
                        if c < n {
                            ks.push(c);
                        }
                    }
                    ks.sort();
                    ks.dedup();
                    for k in ks {
                        v.push(WAct::Accept(k as u32));
                    }
                } else {
                    for k in [1, 2, n / 2, n - 1, n] {
                        v.push(WAct::Accept(k as u32));
                    }
                }
                v.extend_from_slice(&[WAct::Zero, WAct::Eintr, WAct::Eagain, WAct::Epipe]);
            }
        }
        v
    }
    fn key(&self) -> u128 {
        let d = self.conn.verif_digest();
        let mut r = vec![];
        for q in &self.refq {
            r.extend_from_slice(&(q.len() as u32).to_le_bytes());
            r.extend_from_slice(q);
        }
        util::hash128(&[&d, &r, &[self.enqueues as u8, self.head_started as u8, self.discarded_once as u8, self.reads as u8, self.awaiting_body as u8]])
    }
}

impl System for WCfg {
    type A = WAct;
    fn enc(a: WAct) -> u64 {
        enc(a)
    }
    fn dec(x: u64) -> WAct {
        dec(x)
    }
    fn run(&self, path: &[WAct]) -> Outcome<WAct> {
        let mut e = WExec::new(self, false);
        for a in path {
            e.step(*a);
            if e.violation.is_some() {
                break;
            }
        }
        let violation = e.violation.clone().map(|(s, d)| Violation {
            signature: s,
            detail: d,
            replay: json!({"engine": "connw", "config": self.to_json(), "actions": path.iter().map(|a| enc(*a)).collect::<Vec<_>>(), "actions_readable": path.iter().map(|a| format!("{:?}", a)).collect::<Vec<_>>()}),
        });
        Outcome {
            key: e.key(),
            enabled: e.enabled(),
            violation,
            obs: util::hash64(&[&e.obs]),
            nontrivial: e.head_started || e.refq.len() >= 2,
            facts: e.facts,
            impl_facts: 0, aux: 0
        }
    }
    fn trace(&self, path: &[WAct]) -> Value {
        let mut e = WExec::new(self, true);
        for a in path {
            e.step(*a);
            if e.violation.is_some() {
                break;
            }
        }
        json!({"steps": e.steps, "violation": e.violation.map(|(s, d)| json!({"signature": s, "detail": d}))})
    }
    fn fact_names(&self) -> Vec<&'static str> {
        FACTS.to_vec()
    }
}

pub fn replay(v: &Value) -> (bool, Value) {
    let cfg = WCfg::from_json(&v["config"]);
    let path: Vec<WAct> = v["actions"].as_array().unwrap().iter().map(|x| dec(x.as_u64().unwrap())).collect();
    let t = cfg.trace(&path);
    (!t["violation"].is_null(), t)
}
