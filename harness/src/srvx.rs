//! Engine srvx: the real `HttpServer` over real AF_UNIX sockets and real epoll, inside a
//! single-threaded process, explored over interleavings of client, application and polling
//! actions (and readiness-batch orders through the H4 seam). Every state is rebuilt by
//! re-executing its action history on a fresh server; monitors use public observations only
//! (return values, bytes on sockets, the descriptor table).

use crate::explore::{Outcome, System};
use crate::spec::response::read_all;
use crate::spec::stream as ss;
use crate::util::{self, show, Violation};
use micro_http::{Body, HttpServer, Response, ServerError, ServerRequest, StatusCode, Version};
use serde_json::{json, Value};
use std::collections::{BTreeMap, BTreeSet, VecDeque};
use std::os::unix::io::{AsRawFd, RawFd};
use vmm_sys_util::eventfd::EventFd;

pub const SERVER_FULL: &[u8] = b"HTTP/1.1 503\r\nServer: Firecracker API\r\nConnection: close\r\nContent-Length: 40\r\n\r\n{ \"error\": \"Too many open connections\" }";

#[derive(Clone, Copy, Debug, PartialEq, Eq)]
pub enum SAct {
    Connect(u8),
    Send(u8),
    /// mode 0: drain everything available; mode 1: take at most 1024 bytes
    Recv(u8, u8),
    Close(u8),
    ShutRd(u8),
    ShutWr(u8),
    Poll(u16),
    /// respond to the i-th outstanding request with size class s
    Respond(u8, u8),
    Kill,
    SetLimit(u8),
    /// the application calls flush_outgoing_writes()
    Flush,
    /// the application answers every outstanding request in one enqueue_responses() call
    RespondAll(u8),
    /// the application installs the kill switch now (configurations with `kill_install_action`)
    InstallKill,
    /// the application hands in a second response for the request it answered last, whose
    /// connection has been released meanwhile (tolerated and ignored by the implementation)
    LateDuplicate,
}

pub fn enc(a: SAct) -> u64 {
    match a {
        SAct::Connect(c) => 1 << 32 | c as u64,
        SAct::Send(c) => 2 << 32 | c as u64,
        SAct::Recv(c, m) => 3 << 32 | (m as u64) << 8 | c as u64,
        SAct::Close(c) => 4 << 32 | c as u64,
        SAct::ShutRd(c) => 5 << 32 | c as u64,
        SAct::ShutWr(c) => 6 << 32 | c as u64,
        SAct::Poll(o) => 7 << 32 | o as u64,
        SAct::Respond(i, s) => 8 << 32 | (s as u64) << 8 | i as u64,
        SAct::Kill => 9 << 32,
        SAct::SetLimit(l) => 10 << 32 | l as u64,
        SAct::Flush => 11 << 32,
        SAct::RespondAll(s) => 12 << 32 | s as u64,
        SAct::InstallKill => 13 << 32,
        SAct::LateDuplicate => 14 << 32,
    }
}
pub fn dec(x: u64) -> SAct {
    let lo = x as u32;
    match x >> 32 {
        1 => SAct::Connect(lo as u8),
        2 => SAct::Send(lo as u8),
        3 => SAct::Recv(lo as u8, (lo >> 8) as u8),
        4 => SAct::Close(lo as u8),
        5 => SAct::ShutRd(lo as u8),
        6 => SAct::ShutWr(lo as u8),
        7 => SAct::Poll(lo as u16),
        8 => SAct::Respond(lo as u8, (lo >> 8) as u8),
        9 => SAct::Kill,
        10 => SAct::SetLimit(lo as u8),
        11 => SAct::Flush,
        12 => SAct::RespondAll(lo as u8),
        13 => SAct::InstallKill,
        14 => SAct::LateDuplicate,
        _ => panic!("bad action"),
    }
}

#[derive(Clone, Debug, PartialEq)]
pub enum Role {
    /// keeps its connection open, sends only well-formed requests, reads its responses
    WellBehaved,
    /// may do anything its flags allow
    Adversary,
    /// idle connection established by the seed prefix (capacity filler)
    Filler,
}

#[derive(Clone, Debug)]
pub struct ClientCfg {
    pub role: Role,
    /// chunks sent by successive Send actions
    pub script: Vec<Vec<u8>>,
    pub can_close: bool,
    pub can_shut_rd: bool,
    pub can_shut_wr: bool,
    pub reads: bool,
    /// Recv mode 1 (<= 1024 bytes) also offered
    pub partial_recv: bool,
    /// connected (and accepted) by the seed prefix before exploration starts
    pub preconnected: bool,
    /// has already sent this many chunks in the seed prefix (unread by the server)
    pub presend: usize,
    /// connected by the seed prefix but left waiting in the accept queue
    pub preconnect_no_accept: bool,
}

impl ClientCfg {
    pub fn well_behaved(script: Vec<Vec<u8>>) -> ClientCfg {
        ClientCfg { role: Role::WellBehaved, script, can_close: false, can_shut_rd: false, can_shut_wr: false, reads: true, partial_recv: false, preconnected: false, presend: 0, preconnect_no_accept: false }
    }
    pub fn adversary(script: Vec<Vec<u8>>) -> ClientCfg {
        ClientCfg { role: Role::Adversary, script, can_close: true, can_shut_rd: true, can_shut_wr: true, reads: false, partial_recv: false, preconnected: false, presend: 0, preconnect_no_accept: false }
    }
    pub fn filler() -> ClientCfg {
        ClientCfg { role: Role::Filler, script: vec![], can_close: false, can_shut_rd: false, can_shut_wr: false, reads: true, partial_recv: false, preconnected: true, presend: 0, preconnect_no_accept: false }
    }
}

#[derive(Clone, Debug, PartialEq)]
pub enum Orders {
    Asc,
    AscRev,
    /// ascending, each event first, reverse, and all permutations for batches of 3
    Full,
}

#[derive(Clone, Debug)]
pub struct SrvCfg {
    pub property: String,
    pub label: String,
    pub clients: Vec<ClientCfg>,
    /// body sizes the application may answer with
    pub resp_sizes: Vec<usize>,
    pub orders: Orders,
    pub kill_switch: bool,
    /// Kill is an explored action (C18)
    pub kill_action: bool,
    /// kill switch already signalled by the seed
    pub prekilled: bool,
    pub limits: Vec<usize>,
    /// shrink SO_SNDBUF of accepted sockets so that multi-KiB responses need several writes
    pub small_sndbuf: bool,
    pub max_depth: usize,
    // --- oracles ---
    /// C08: fair completion from every state: everything yielded once and delivered, epoll quiescent
    pub closure_all: bool,
    /// C09: a fresh witness client completes a round trip from every state
    pub closure_witness: bool,
    /// C09/C10: after answering everything, dead connections are gone from the descriptor table
    pub release_check: bool,
    /// C08: flush_outgoing_writes delivers queued responses that fit the socket buffer
    pub flush_probe: bool,
    /// C18: the same history on a server without kill switch gives the same observations
    pub twin_without_kill: bool,
    /// only out-of-order across connections etc.: the application may answer any outstanding request
    pub respond_any: bool,
    pub max_outstanding_for_respond: usize,
    /// C11: requests that were answered with 400 and must never be yielded
    pub never_yield: Vec<(usize, usize)>,
    /// C11: requests that must be yielded when sent after the server has consumed the malformed input
    pub must_yield_after: Vec<(usize, usize)>,
    pub closure_c11: bool,
    /// C11: a request is yielded by the requests() call that consumes its last byte, never later
    pub yield_promptly: bool,
    /// C18: the kill switch is installed after start_server() instead of before
    pub kill_switch_late: bool,
    /// flush_outgoing_writes() is an explored application action
    pub flush_action: bool,
    /// the server starts without kill switch; installing it is an explored application action
    pub kill_install_action: bool,
    /// the application may replace the installed kill switch once (a second add_kill_switch);
    /// the replaced switch is never signalled afterwards
    pub kill_reinstall: bool,
    /// every chunk of every script is one rejected request; a client sends its next chunk only
    /// after it has read the reply to the previous one, so the k-th 400 answers the k-th chunk
    pub chunk_replies: bool,
    /// descriptor 0 of the process is free while the server runs (a daemon that closed its standard
    /// input): the first descriptor the server obtains after start-up is number 0
    pub free_fd0: bool,
    /// a duplicate response for the last answered request of a released connection is an explored action
    pub late_duplicates: bool,
}

impl SrvCfg {
    pub fn base(property: &str, label: &str, clients: Vec<ClientCfg>) -> SrvCfg {
        SrvCfg {
            property: property.into(),
            label: label.into(),
            clients,
            resp_sizes: vec![5],
            orders: Orders::Asc,
            kill_switch: false,
            kill_action: false,
            prekilled: false,
            limits: vec![],
            small_sndbuf: false,
            max_depth: 64,
            closure_all: false,
            closure_witness: false,
            release_check: false,
            flush_probe: false,
            twin_without_kill: false,
            respond_any: true,
            max_outstanding_for_respond: 4,
            never_yield: vec![],
            must_yield_after: vec![],
            closure_c11: false,
            yield_promptly: false,
            kill_switch_late: false,
            flush_action: false,
            kill_install_action: false,
            kill_reinstall: false,
            chunk_replies: false,
            free_fd0: false,
            late_duplicates: false,
        }
    }
    pub fn to_json(&self) -> Value {
        json!({
            "property": self.property, "label": self.label,
            "clients": self.clients.iter().map(|c| json!({
                "role": format!("{:?}", c.role), "script": c.script.iter().map(|s| util::hex(s)).collect::<Vec<_>>(),
                "can_close": c.can_close, "can_shut_rd": c.can_shut_rd, "can_shut_wr": c.can_shut_wr, "reads": c.reads,
                "partial_recv": c.partial_recv, "preconnected": c.preconnected, "presend": c.presend, "preconnect_no_accept": c.preconnect_no_accept})).collect::<Vec<_>>(),
            "resp_sizes": self.resp_sizes, "orders": format!("{:?}", self.orders), "kill_switch": self.kill_switch,
            "kill_action": self.kill_action, "prekilled": self.prekilled, "limits": self.limits, "small_sndbuf": self.small_sndbuf,
            "max_depth": self.max_depth, "closure_all": self.closure_all, "closure_witness": self.closure_witness,
            "release_check": self.release_check, "flush_probe": self.flush_probe, "twin_without_kill": self.twin_without_kill,
            "respond_any": self.respond_any, "max_outstanding_for_respond": self.max_outstanding_for_respond,
            "never_yield": self.never_yield, "must_yield_after": self.must_yield_after, "closure_c11": self.closure_c11, "yield_promptly": self.yield_promptly, "kill_switch_late": self.kill_switch_late, "flush_action": self.flush_action, "kill_install_action": self.kill_install_action, "kill_reinstall": self.kill_reinstall, "chunk_replies": self.chunk_replies, "free_fd0": self.free_fd0, "late_duplicates": self.late_duplicates,
        })
    }
    pub fn from_json(v: &Value) -> SrvCfg {
        let b = |k: &str| v[k].as_bool().unwrap_or(false);
        SrvCfg {
            property: v["property"].as_str().unwrap().into(),
            label: v["label"].as_str().unwrap().into(),
            clients: v["clients"]
                .as_array()
                .unwrap()
                .iter()
                .map(|c| ClientCfg {
                    role: match c["role"].as_str().unwrap() {
                        "WellBehaved" => Role::WellBehaved,
                        "Filler" => Role::Filler,
                        _ => Role::Adversary,
                    },
                    script: c["script"].as_array().unwrap().iter().map(|s| util::unhex(s.as_str().unwrap())).collect(),
                    can_close: c["can_close"].as_bool().unwrap(),
                    can_shut_rd: c["can_shut_rd"].as_bool().unwrap(),
                    can_shut_wr: c["can_shut_wr"].as_bool().unwrap(),
                    reads: c["reads"].as_bool().unwrap(),
                    partial_recv: c["partial_recv"].as_bool().unwrap(),
                    preconnected: c["preconnected"].as_bool().unwrap(),
                    presend: c["presend"].as_u64().unwrap() as usize,
                    preconnect_no_accept: c["preconnect_no_accept"].as_bool().unwrap_or(false),
                })
                .collect(),
            resp_sizes: v["resp_sizes"].as_array().unwrap().iter().map(|x| x.as_u64().unwrap() as usize).collect(),
            orders: match v["orders"].as_str().unwrap() {
                "Asc" => Orders::Asc,
                "AscRev" => Orders::AscRev,
                _ => Orders::Full,
            },
            kill_switch: b("kill_switch"),
            kill_action: b("kill_action"),
            prekilled: b("prekilled"),
            limits: v["limits"].as_array().unwrap().iter().map(|x| x.as_u64().unwrap() as usize).collect(),
            small_sndbuf: b("small_sndbuf"),
            max_depth: v["max_depth"].as_u64().unwrap() as usize,
            closure_all: b("closure_all"),
            closure_witness: b("closure_witness"),
            release_check: b("release_check"),
            flush_probe: b("flush_probe"),
            twin_without_kill: b("twin_without_kill"),
            respond_any: b("respond_any"),
            max_outstanding_for_respond: v["max_outstanding_for_respond"].as_u64().unwrap_or(4) as usize,
            never_yield: pairs(&v["never_yield"]),
            must_yield_after: pairs(&v["must_yield_after"]),
            closure_c11: b("closure_c11"),
            yield_promptly: b("yield_promptly"),
            kill_switch_late: b("kill_switch_late"),
            kill_install_action: b("kill_install_action"),
            kill_reinstall: b("kill_reinstall"),
            chunk_replies: b("chunk_replies"),
            free_fd0: b("free_fd0"),
            late_duplicates: b("late_duplicates"),
            flush_action: b("flush_action"),
        }
    }
}

fn pairs(v: &Value) -> Vec<(usize, usize)> {
    v.as_array().map(|a| a.iter().map(|x| (x[0].as_u64().unwrap() as usize, x[1].as_u64().unwrap() as usize)).collect()).unwrap_or_default()
}

/// Tagged request of client `c`, number `k`.
pub fn tagged_get(c: usize, k: usize) -> Vec<u8> {
    format!("GET /c{}/r{} HTTP/1.1\r\n\r\n", c, k).into_bytes()
}
pub fn tagged_put(c: usize, k: usize, body: &[u8]) -> Vec<u8> {
    let mut v = format!("PUT /c{}/r{} HTTP/1.1\r\nContent-Length: {}\r\n\r\n", c, k, body.len()).into_bytes();
    v.extend_from_slice(body);
    v
}
pub fn tagged_expect_head(c: usize, k: usize, n: usize) -> Vec<u8> {
    format!("PUT /c{}/r{} HTTP/1.1\r\nExpect: 100-continue\r\nContent-Length: {}\r\n\r\n", c, k, n).into_bytes()
}

/// Body of the application's answer to request k of client c: tag, then bytes that depend on
/// their position (a repeated or misplaced stretch of a response is visible in the body).
pub fn response_body(c: usize, k: usize, size: usize) -> Vec<u8> {
    let mut body = format!("c{}r{}:", c, k).into_bytes();
    while body.len() < size {
        let i = body.len();
        body.push(b'a' + ((i / 7 + i % 13 + c + 3 * k) % 26) as u8);
    }
    body
}

fn parse_tag(path: &str) -> Option<(usize, usize)> {
    let rest = path.strip_prefix("/c")?;
    let (c, r) = rest.split_once("/r")?;
    Some((c.parse().ok()?, r.parse().ok()?))
}

struct Client {
    fd: RawFd,
    connected: bool,
    accepted: bool,
    refused: bool,
    closed: bool,
    shut_rd: bool,
    shut_wr: bool,
    sent_chunks: usize,
    sent: Vec<u8>,
    rx: Vec<u8>,
    eof: bool,
    reset: bool,
    server_fd: Option<RawFd>,
    /// limit in force when the server accepted this client
    limit_at_accept: usize,
    yielded: usize,
    supplied: Vec<(usize, usize)>,
    /// the application supplied a response after this client shut down its read side: the
    /// server has (after fair completion) attempted a write that must have failed
    answered_after_shut_rd: bool,
    /// this client closed its socket, owes nothing and is owed nothing, and the server has since
    /// completed a call that handled an event of its connection: the release is due (C10)
    release_due: bool,
    /// after this client shut down its read side the server handled a writability event for
    /// its connection while output was pending: that write can only have failed
    write_failed_known: bool,
    /// stream offset up to which the server had consumed this client's bytes before the current poll
    consumed_before_poll: usize,
    /// Reference parser for the bytes the server has consumed from this client (what it took out
    /// of the socket is observable through FIONREAD): requests it must yield, in order.
    /// descriptor number this client's connection had at the server before it was released
    last_server_fd: Option<RawFd>,
    ref_machine: Option<ss::Machine>,
    ref_fed: usize,
    ref_expected: VecDeque<String>,
    /// the reference stopped judging this client (input outside the judged grammar, or the
    /// connection was released in a call whose final consumption cannot be measured)
    ref_off: bool,
}

struct Outstanding {
    sreq: ServerRequest,
    client: usize,
    seq: usize,
}

pub const FACTS: [&str; 20] = [
    "poll_batch_of_2_or_more",
    "poll_with_nonascending_order",
    "accept_reused_descriptor_number_of_released_connection",
    "accept_reused_number_while_request_of_previous_owner_outstanding",
    "client_connected_at_capacity_and_was_refused",
    "response_needed_several_writes(short_write)",
    "respond_out_of_yield_order",
    "respond_after_client_closed",
    "client_closed_with_request_in_flight",
    "client_closed_with_unread_input",
    "client_shutdown_rd",
    "client_shutdown_wr",
    "two_requests_yielded_by_one_poll",
    "poll_yielded_requests_of_two_connections",
    "kill_signalled_with_other_descriptors_ready",
    "parse_error_answered_400",
    "interim_100_received_by_client",
    "ten_connections_open",
    "batch_of_12_ready_descriptors",
    "limit_changed_between_accepts",
];

pub struct World<'a> {
    cfg: &'a SrvCfg,
    server: Option<HttpServer>,
    listener_fd: RawFd,
    epfd: RawFd,
    kill: Option<EventFd>,
    /// closure variant in which the application answers nothing further
    probe_without_answers: bool,
    killed: bool,
    kill_installed: bool,
    /// switches replaced by a later add_kill_switch (kept open by the application, never signalled)
    old_kills: Vec<EventFd>,
    reinstalls: u8,
    /// the kill switch was signalled before it was handed to the server (the eventfd waits here)
    signalled_early: bool,
    pending_kill_ev: Option<EventFd>,
    polls_after_kill: usize,
    devnull: RawFd,
    foreign: BTreeSet<RawFd>,
    saved_fd0: Option<RawFd>,
    clients: Vec<Client>,
    pending_accept: VecDeque<usize>,
    outstanding: Vec<Outstanding>,
    /// the request answered last (kept so that a late duplicate can be produced from it)
    last_answered: Option<Outstanding>,
    /// with_kill_switch as passed to the constructor (InstallKill is a no-op on the twin)
    with_kill: bool,
    limit: usize,
    released_fds: BTreeSet<RawFd>,
    pub violation: Option<(String, String)>,
    pub log: Vec<String>,
    pub facts: u64,
    steps: Vec<Value>,
    tracing: bool,
    depth: usize,
    total_supplied: usize,
    addr_name: String,
}

fn cvt(r: i32, what: &str) -> i32 {
    if r < 0 {
        panic!("harness syscall failed: {}: {}", what, std::io::Error::last_os_error());
    }
    r
}

static COUNTER: std::sync::atomic::AtomicU64 = std::sync::atomic::AtomicU64::new(0);

fn abstract_addr(name: &str) -> (libc::sockaddr_un, libc::socklen_t) {
    let mut a: libc::sockaddr_un = unsafe { std::mem::zeroed() };
    a.sun_family = libc::AF_UNIX as libc::sa_family_t;
    let bytes = name.as_bytes();
    for (i, b) in bytes.iter().enumerate() {
        a.sun_path[i + 1] = *b as libc::c_char;
    }
    let len = std::mem::size_of::<libc::sa_family_t>() + 1 + bytes.len();
    (a, len as libc::socklen_t)
}

fn open_fds() -> BTreeSet<RawFd> {
    let mut s = BTreeSet::new();
    let mut dirfd = -1;
    if let Ok(rd) = std::fs::read_dir("/proc/self/fd") {
        for e in rd.flatten() {
            if let Ok(n) = e.file_name().to_string_lossy().parse::<i32>() {
                // the entry that points at /proc/<pid>/fd itself is the directory handle
                if let Ok(t) = std::fs::read_link(e.path()) {
                    if t.to_string_lossy().ends_with("/fd") && t.to_string_lossy().starts_with("/proc/") {
                        dirfd = n;
                        continue;
                    }
                }
                s.insert(n);
            }
        }
    }
    let _ = dirfd;
    s
}

fn sock_ino(fd: RawFd) -> u64 {
    let mut st: libc::stat = unsafe { std::mem::zeroed() };
    if unsafe { libc::fstat(fd, &mut st) } == 0 {
        st.st_ino as u64
    } else {
        0
    }
}

fn fionread(fd: RawFd) -> i32 {
    let mut n: libc::c_int = 0;
    let r = unsafe { libc::ioctl(fd, libc::FIONREAD, &mut n) };
    if r < 0 {
        -1
    } else {
        n
    }
}

impl<'a> World<'a> {
    pub fn new(cfg: &'a SrvCfg, tracing: bool, with_kill_switch: bool) -> World<'a> {
        let mut foreign = open_fds();
        let n = COUNTER.fetch_add(1, std::sync::atomic::Ordering::Relaxed);
        let name = format!("mhv-{}-{}", std::process::id(), n);
        let lfd = cvt(unsafe { libc::socket(libc::AF_UNIX, libc::SOCK_STREAM | libc::SOCK_CLOEXEC, 0) }, "socket");
        let (addr, len) = abstract_addr(&name);
        cvt(unsafe { libc::bind(lfd, &addr as *const _ as *const libc::sockaddr, len) }, "bind");
        cvt(unsafe { libc::listen(lfd, 128) }, "listen");
        let mut server = unsafe { HttpServer::new_from_fd(lfd) }.expect("HttpServer::new_from_fd");
        let epfd = server.epoll().as_raw_fd();
        let mut kill = None;
        if cfg.kill_switch_late {
            server.start_server().expect("start_server");
        }
        if with_kill_switch && !cfg.kill_install_action {
            let ev = EventFd::new(libc::EFD_NONBLOCK).expect("eventfd");
            let mine = ev.try_clone().expect("eventfd clone");
            server.add_kill_switch(ev).expect("add_kill_switch");
            kill = Some(mine);
        }
        if !cfg.kill_switch_late {
            server.start_server().expect("start_server");
        }
        let devnull = cvt(unsafe { libc::open(b"/dev/null\0".as_ptr() as *const libc::c_char, libc::O_RDWR | libc::O_CLOEXEC) }, "open /dev/null");
        let mut clients = vec![];
        for _ in &cfg.clients {
            let fd = cvt(unsafe { libc::socket(libc::AF_UNIX, libc::SOCK_STREAM | libc::SOCK_NONBLOCK | libc::SOCK_CLOEXEC, 0) }, "client socket");
            clients.push(Client {
                fd,
                connected: false,
                accepted: false,
                refused: false,
                closed: false,
                shut_rd: false,
                shut_wr: false,
                sent_chunks: 0,
                sent: vec![],
                rx: vec![],
                eof: false,
                reset: false,
                server_fd: None,
                limit_at_accept: 0,
                yielded: 0,
                supplied: vec![],
                answered_after_shut_rd: false,
                release_due: false,
                write_failed_known: false,
                consumed_before_poll: 0,
                last_server_fd: None,
                ref_machine: None,
                ref_fed: 0,
                ref_expected: VecDeque::new(),
                ref_off: false,
            });
        }
        let mut w = World {
            cfg,
            server: Some(server),
            listener_fd: lfd,
            epfd,
            kill,
            killed: false,
            polls_after_kill: 0,
            probe_without_answers: false,
            kill_installed: false,
            old_kills: vec![],
            reinstalls: 0,
            signalled_early: false,
            pending_kill_ev: None,
            last_answered: None,
            with_kill: with_kill_switch,
            devnull,
            saved_fd0: if cfg.free_fd0 {
                let saved = unsafe { libc::fcntl(0, libc::F_DUPFD_CLOEXEC, 700) };
                if saved >= 0 {
                    unsafe { libc::close(0) };
                    foreign.remove(&0);
                    foreign.insert(saved);
                    Some(saved)
                } else {
                    None
                }
            } else {
                None
            },
            foreign,
            clients,
            pending_accept: VecDeque::new(),
            outstanding: vec![],
            limit: 51200,
            released_fds: BTreeSet::new(),
            violation: None,
            log: vec![],
            facts: 0,
            steps: vec![],
            tracing,
            depth: 0,
            total_supplied: 0,
            addr_name: name,
        };
        // seed prefix
        for i in 0..cfg.clients.len() {
            if cfg.clients[i].preconnected {
                w.step(SAct::Connect(i as u8));
                w.step(SAct::Poll(0));
            }
        }
        for i in 0..cfg.clients.len() {
            if cfg.clients[i].preconnect_no_accept {
                w.step(SAct::Connect(i as u8));
            }
        }
        for i in 0..cfg.clients.len() {
            for _ in 0..cfg.clients[i].presend {
                w.step(SAct::Send(i as u8));
            }
        }
        if cfg.prekilled && with_kill_switch {
            w.step(SAct::Kill);
            w.polls_after_kill = 0;
        }
        w.log.clear();
        w.steps.clear();
        w.depth = 0;
        w
    }

    fn fail(&mut self, sig: &str, detail: String) {
        if self.violation.is_none() {
            self.violation = Some((sig.to_string(), detail));
        }
    }

    fn epoll_readable(&self) -> bool {
        let mut p = libc::pollfd { fd: self.epfd, events: libc::POLLIN, revents: 0 };
        let r = unsafe { libc::poll(&mut p, 1, 0) };
        r > 0 && p.revents & libc::POLLIN != 0
    }

    /// descriptors currently ready in the server's epoll set (peek; order is not meaningful)
    fn ready_set(&self) -> Vec<(RawFd, u32)> {
        let mut evs: [libc::epoll_event; 64] = unsafe { std::mem::zeroed() };
        let n = unsafe { libc::epoll_wait(self.epfd, evs.as_mut_ptr(), 64, 0) };
        let mut v: Vec<(RawFd, u32)> = (0..n.max(0) as usize).map(|i| (evs[i].u64 as RawFd, evs[i].events)).collect();
        v.sort();
        v
    }

    fn interest_masks(&self) -> String {
        let s = std::fs::read_to_string(format!("/proc/self/fdinfo/{}", self.epfd)).unwrap_or_default();
        let mut v: Vec<String> = s
            .lines()
            .filter(|l| l.starts_with("tfd:"))
            .map(|l| {
                let mut it = l.split_whitespace();
                let _ = it.next();
                let fd = it.next().unwrap_or("");
                let _ = it.next();
                let ev = it.next().unwrap_or("");
                format!("{}:{}", fd, ev)
            })
            .collect();
        v.sort();
        v.join(",")
    }

    fn server_fds(&self) -> BTreeSet<RawFd> {
        let mut all = open_fds();
        for f in &self.foreign {
            all.remove(f);
        }
        all.remove(&self.devnull);
        if let Some(k) = &self.kill {
            all.remove(&k.as_raw_fd());
        }
        if let Some(k) = &self.pending_kill_ev {
            all.remove(&k.as_raw_fd());
        }
        for k in &self.old_kills {
            all.remove(&k.as_raw_fd());
        }
        for c in &self.clients {
            all.remove(&c.fd);
        }
        all
    }

    fn server_table(&self) -> Vec<(RawFd, u8, u32, Vec<u8>)> {
        self.server.as_ref().unwrap().verif_connections()
    }

    pub fn step(&mut self, a: SAct) {
        self.facts = 0;
        self.depth += 1;
        match a {
            SAct::Connect(c) => self.connect(c as usize),
            SAct::Send(c) => self.send(c as usize),
            SAct::Recv(c, m) => {
                self.recv(c as usize, m);
            }
            SAct::Close(c) => self.close(c as usize),
            SAct::ShutRd(c) => self.shutdown(c as usize, libc::SHUT_RD),
            SAct::ShutWr(c) => self.shutdown(c as usize, libc::SHUT_WR),
            SAct::Poll(o) => self.poll(o as u32),
            SAct::Respond(i, s) => self.respond(i as usize, self.cfg.resp_sizes[s as usize % self.cfg.resp_sizes.len()]),
            SAct::Kill if self.cfg.kill_install_action && !self.kill_installed => {
                // signalled before the application hands the switch to the server
                if self.with_kill {
                    let ev = EventFd::new(libc::EFD_NONBLOCK).expect("eventfd");
                    ev.write(1).expect("eventfd write");
                    self.pending_kill_ev = Some(ev);
                }
                self.signalled_early = true;
                self.note("Kill", json!({"before_installation": true}));
                self.log.push("kill".into());
            }
            SAct::Kill => {
                if let Some(k) = &self.kill {
                    k.write(1).expect("eventfd write");
                }
                self.killed = true;
                if self.ready_set().len() >= 2 {
                    self.facts |= 1 << 14;
                }
                self.note("Kill", json!({}));
                self.log.push("kill".into());
            }
            SAct::InstallKill => {
                let replacing = self.kill_installed;
                if self.with_kill && (self.kill.is_none() || replacing) {
                    if let Some(old) = self.kill.take() {
                        self.old_kills.push(old);
                    }
                    let ev = match self.pending_kill_ev.take() {
                        Some(ev) => ev,
                        None => EventFd::new(libc::EFD_NONBLOCK).expect("eventfd"),
                    };
                    let mine = ev.try_clone().expect("eventfd clone");
                    let num = ev.as_raw_fd();
                    let r = util::catch(|| self.server.as_mut().unwrap().add_kill_switch(ev));
                    self.kill = Some(mine);
                    self.note("InstallKill", json!({"replaces_installed_switch": replacing, "eventfd": num, "reuses_released_number": self.released_fds.contains(&num), "result": format!("{:?}", r.as_ref().map(|x| x.as_ref().map(|_| ()).map_err(|e| format!("{:?}", e))))}));
                    match r {
                        Err(p) => return self.fail("panic", format!("add_kill_switch panicked: {}", p)),
                        Ok(Err(e)) => return self.fail("add-kill-switch-failed", format!("add_kill_switch on a started server returned Err({:?})", e)),
                        Ok(Ok(())) => {}
                    }
                } else {
                    self.note("InstallKill", json!({"skipped": "twin without kill switch"}));
                }
                if replacing {
                    self.reinstalls += 1;
                }
                self.kill_installed = true;
                if self.signalled_early {
                    self.killed = true;
                }
                self.log.push("install-kill".into());
            }
            SAct::LateDuplicate => {
                // (on the twin server descriptor numbers differ: the same guard as in enabled())
                let names_nothing = self.last_answered.as_ref().map_or(false, |o| {
                    let cl = &self.clients[o.client];
                    cl.accepted && cl.server_fd.is_none() && cl.last_server_fd.map_or(false, |f| !self.server_table().iter().any(|e| e.0 == f))
                });
                if !names_nothing {
                    self.last_answered = None;
                    self.note("LateDuplicate", json!({"skipped": "the identifier names a live connection here"}));
                    self.log.push("late-duplicate".into());
                    return;
                }
                if let Some(o) = self.last_answered.take() {
                    let (c, k) = (o.client, o.seq);
                    let resp = o.sreq.process(|req| {
                        let mut r = Response::new(req.http_version(), StatusCode::OK);
                        r.set_body(Body::new(format!("c{}r{}:duplicate", c, k).into_bytes()));
                        r
                    });
                    // whatever respond() says about it is fine; nothing else may change
                    let r = util::catch(|| self.server.as_mut().unwrap().respond(resp));
                    self.note(&format!("LateDuplicate(c{}r{})", c, k), json!({"result": format!("{:?}", r.as_ref().map(|x| x.as_ref().map(|_| ()).map_err(|e| format!("{:?}", e))))}));
                    if let Err(p) = r {
                        return self.fail("panic", format!("HttpServer::respond panicked on a late duplicate: {}", p));
                    }
                    self.log.push("late-duplicate".into());
                }
            }
            SAct::RespondAll(sz) => {
                let size = self.cfg.resp_sizes[sz as usize % self.cfg.resp_sizes.len()];
                let mut batch = vec![];
                let mut desc = vec![];
                if sz & 0x80 != 0 {
                    // the batch alternates between the clients (per-client order kept)
                    let mut rank = std::collections::BTreeMap::new();
                    let mut keyed: Vec<(usize, usize, Outstanding)> = std::mem::take(&mut self.outstanding)
                        .into_iter()
                        .map(|o| {
                            let r = rank.entry(o.client).or_insert(0usize);
                            *r += 1;
                            (*r, o.client, o)
                        })
                        .collect();
                    keyed.sort_by_key(|x| (x.0, x.1));
                    self.outstanding = keyed.into_iter().map(|x| x.2).collect();
                }
                let sz = sz & 0x7f;
                for o in std::mem::take(&mut self.outstanding) {
                    let (c, k) = (o.client, o.seq);
                    if self.clients[c].closed {
                        self.facts |= 1 << 7;
                    }
                    batch.push(o.sreq.process(|req| {
                        let mut r = Response::new(req.http_version(), StatusCode::OK);
                        r.set_body(Body::new(response_body(c, k, size)));
                        r
                    }));
                    self.clients[c].supplied.push((k, size));
                    if self.clients[c].shut_rd {
                        self.clients[c].answered_after_shut_rd = true;
                    }
                    self.total_supplied += 1;
                    desc.push(format!("c{}r{}", c, k));
                }
                let r = util::catch(|| self.server.as_mut().unwrap().enqueue_responses(batch));
                self.log.push(format!("respond-all {:?} size {}", desc, size));
                self.note(&format!("RespondAll({:?}, body {} bytes) via enqueue_responses", desc, size), json!({"result": format!("{:?}", r.as_ref().map(|x| x.as_ref().map(|_| ()).map_err(|e| format!("{:?}", e))))}));
                match r {
                    Err(p) => self.fail("panic", format!("HttpServer::enqueue_responses panicked: {}", p)),
                    Ok(Err(e)) => self.fail("respond-failed", format!("HttpServer::enqueue_responses returned Err({:?})", e)),
                    Ok(Ok(())) => {}
                }
            }
            SAct::Flush => {
                let r = util::catch(|| self.server.as_mut().unwrap().flush_outgoing_writes());
                self.note("Flush (flush_outgoing_writes)", json!({}));
                self.log.push("flush".into());
                if let Err(p) = r {
                    return self.fail("panic", format!("flush_outgoing_writes panicked: {}", p));
                }
                self.check_descriptors("after flush_outgoing_writes()");
            }
            SAct::SetLimit(l) => {
                let lim = self.cfg.limits[l as usize];
                self.server.as_mut().unwrap().set_payload_max_size(lim);
                if lim != self.limit && self.clients.iter().any(|c| c.accepted) {
                    self.facts |= 1 << 19;
                }
                self.limit = lim;
                self.note(&format!("SetLimit({})", lim), json!({}));
                self.log.push(format!("limit {}", lim));
            }
        }
    }

    fn note(&mut self, action: &str, mut v: Value) {
        if self.tracing {
            v["action"] = json!(action);
            self.steps.push(v);
        }
    }

    fn connect(&mut self, c: usize) {
        let (addr, len) = abstract_addr(&self.addr_name);
        let r = unsafe { libc::connect(self.clients[c].fd, &addr as *const _ as *const libc::sockaddr, len) };
        if r < 0 {
            panic!("harness: connect failed: {}", std::io::Error::last_os_error());
        }
        self.clients[c].connected = true;
        self.pending_accept.push_back(c);
        self.note(&format!("Connect(client {})", c), json!({}));
        self.log.push(format!("connect {}", c));
    }

    fn send(&mut self, c: usize) {
        let i = self.clients[c].sent_chunks;
        let chunk = self.cfg.clients[c].script[i].clone();
        let r = unsafe { libc::send(self.clients[c].fd, chunk.as_ptr() as *const libc::c_void, chunk.len(), libc::MSG_NOSIGNAL) };
        let errno = std::io::Error::last_os_error().raw_os_error().unwrap_or(0);
        self.clients[c].sent_chunks += 1;
        if r == chunk.len() as isize {
            self.clients[c].sent.extend_from_slice(&chunk);
        } else if r < 0 && (errno == libc::EPIPE || errno == libc::ECONNRESET) {
            // the server already dropped this client (e.g. refused at capacity)
            self.clients[c].reset = true;
        } else if r >= 0 {
            self.clients[c].sent.extend_from_slice(&chunk[..r as usize]);
        }
        self.note(&format!("Send(client {})", c), json!({"bytes": show(&chunk), "result": r}));
        self.log.push(format!("send {} {}", c, r));
    }

    fn recv(&mut self, c: usize, mode: u8) -> usize {
        let mut total = 0usize;
        let mut buf = vec![0u8; if mode == 1 { 1024 } else { 65536 }];
        loop {
            let r = unsafe { libc::recv(self.clients[c].fd, buf.as_mut_ptr() as *mut libc::c_void, buf.len(), 0) };
            if r > 0 {
                self.clients[c].rx.extend_from_slice(&buf[..r as usize]);
                total += r as usize;
                if mode == 1 {
                    break;
                }
                continue;
            }
            if r == 0 {
                if !self.clients[c].eof {
                    total += 1; // observing EOF is progress
                }
                self.clients[c].eof = true;
            } else {
                let e = std::io::Error::last_os_error().raw_os_error().unwrap_or(0);
                if e == libc::ECONNRESET {
                    if !self.clients[c].reset {
                        total += 1;
                    }
                    self.clients[c].reset = true;
                }
            }
            break;
        }
        let rxlen = self.clients[c].rx.len();
        self.note(&format!("Recv(client {}, mode {})", c, mode), json!({"got": total, "received_total": rxlen, "eof": self.clients[c].eof, "reset": self.clients[c].reset}));
        self.log.push(format!("recv {} total {} eof {} reset {}", c, rxlen, self.clients[c].eof, self.clients[c].reset));
        self.check_client_rx(c);
        total
    }

    fn close(&mut self, c: usize) {
        let cl = &self.clients[c];
        if cl.accepted && self.outstanding.iter().any(|o| o.client == c) {
            self.facts |= 1 << 8;
        }
        if let Some(sfd) = cl.server_fd {
            if fionread(sfd) > 0 {
                self.facts |= 1 << 9;
            }
        }
        // keep the number occupied so that only numbers released by the server can be reused
        cvt(unsafe { libc::dup2(self.devnull, self.clients[c].fd) }, "dup2 placeholder");
        self.clients[c].closed = true;
        self.note(&format!("Close(client {})", c), json!({}));
        self.log.push(format!("close {}", c));
    }

    fn shutdown(&mut self, c: usize, how: i32) {
        unsafe {
            libc::shutdown(self.clients[c].fd, how);
        }
        if how == libc::SHUT_RD {
            self.clients[c].shut_rd = true;
            self.facts |= 1 << 10;
        } else {
            self.clients[c].shut_wr = true;
            self.facts |= 1 << 11;
        }
        self.note(&format!("Shutdown(client {}, {})", c, if how == libc::SHUT_RD { "RD" } else { "WR" }), json!({}));
        self.log.push(format!("shutdown {} {}", c, how));
    }

    fn poll(&mut self, order: u32) {
        if !self.epoll_readable() {
            // only reachable when replaying a history on the twin server: readiness differs
            self.log.push("poll-not-ready".into());
            self.note("Poll", json!({"skipped": "epoll descriptor not readable"}));
            return;
        }
        for c in self.clients.iter_mut() {
            if let Some(sfd) = c.server_fd {
                let unread = fionread(sfd).max(0) as usize;
                c.consumed_before_poll = c.sent.len().saturating_sub(unread);
            }
        }
        let pre_server_fd: Vec<Option<RawFd>> = self.clients.iter().map(|c| c.server_fd).collect();
        // connections are identified by (descriptor number, socket inode): a number released and
        // handed out again within one call names a different connection
        let before: BTreeSet<(RawFd, u64)> = self.server_table().iter().map(|e| (e.0, sock_ino(e.0))).collect();
        let before_states: BTreeMap<RawFd, u8> = self.server_table().iter().map(|e| (e.0, e.1)).collect();
        let code = match order {
            1000 => micro_http::verif::ORDER_REVERSE,
            o if o >= 2000 => micro_http::verif::ORDER_PERM_BASE + (o - 2000),
            o => o,
        };
        micro_http::verif::set_event_order(code);
        let owed_before: Vec<bool> = (0..self.clients.len()).map(|i| self.outstanding.iter().any(|o| o.client == i)).collect();
        let due_before: Vec<RawFd> = (0..self.clients.len()).filter(|i| self.clients[*i].release_due && !owed_before[*i]).filter_map(|i| pre_server_fd[i]).filter(|fd| before.iter().any(|e| e.0 == *fd)).collect();
        let r = util::catch(|| self.server.as_mut().unwrap().requests());
        micro_http::verif::set_event_order(0);
        let batch = micro_http::verif::last_batch();
        if batch.len() >= 2 {
            self.facts |= 1 << 0;
        }
        if batch.len() >= 12 {
            self.facts |= 1 << 18;
        }
        if batch.windows(2).any(|w| w[0].0 > w[1].0) {
            self.facts |= 1 << 1;
        }
        if self.killed {
            self.polls_after_kill += 1;
        }
        let table = self.server_table();
        let after: BTreeSet<(RawFd, u64)> = table.iter().map(|e| (e.0, sock_ino(e.0))).collect();
        if table.len() >= 10 {
            self.facts |= 1 << 17;
        }
        for (fd, _) in before.difference(&after) {
            self.released_fds.insert(*fd);
            for c in self.clients.iter_mut() {
                if c.server_fd == Some(*fd) {
                    c.server_fd = None;
                    c.last_server_fd = Some(*fd);
                }
            }
        }
        // Did the listener fire, and was its event reached before an early return? Events are
        // handled in batch order; ShutdownEvent returns at the kill switch's event. (After any
        // other error the state is a violation and is not expanded, so bookkeeping is moot.)
        let listener_pos = batch.iter().position(|(fd, _)| *fd == self.listener_fd);
        let kill_fd = self.server.as_ref().unwrap().verif_globals().1;
        let kill_pos = batch.iter().position(|(fd, _)| *fd == kill_fd);
        let mut accepted_desc = String::new();
        let mut accepted_trace = String::new();
        let mut refused_below: Option<(usize, usize)> = None;
        {
            // Accept bookkeeping is observational: new connections in the server's table are
            // matched, in ascending descriptor order (= accept order: the kernel hands out the
            // lowest free number), with the clients waiting at the listener in connect order; a
            // waiting client whose socket shows the server's hang-up was turned away. How many
            // waiting clients one call handles, and whether a call that reports shutdown handled
            // the listener at all, is the implementation's business.
            let _ = (listener_pos, kill_pos);
            let mut newfds: Vec<RawFd> = after.difference(&before).map(|e| e.0).collect();
            newfds.sort();
            let hung_up = |fd: RawFd| -> bool {
                let mut pfd = libc::pollfd { fd, events: libc::POLLIN | 0x2000, revents: 0 };
                let n = unsafe { libc::poll(&mut pfd, 1, 0) };
                // POLLHUP: both directions are down - the peer closed (a client's own SHUT_RD only
                // raises POLLRDHUP, its own SHUT_WR nothing)
                n > 0 && pfd.revents & (libc::POLLHUP | libc::POLLERR) != 0
            };
            let call_completed = matches!(&r, Ok(Ok(_)));
            let mut handled = 0usize;
            let mut descs: Vec<String> = vec![];
            let mut traces: Vec<String> = vec![];
            while let Some(&c) = self.pending_accept.front() {
                // unobservable from the client's side: it closed, or shut down both directions itself
                let closed_by_itself = self.clients[c].closed || (self.clients[c].shut_rd && self.clients[c].shut_wr);
                let refused_seen = !closed_by_itself && hung_up(self.clients[c].fd);
                if !refused_seen && !newfds.is_empty() {
                    let fd = newfds.remove(0);
                    self.pending_accept.pop_front();
                    self.clients[c].accepted = true;
                    self.clients[c].server_fd = Some(fd);
                    self.clients[c].limit_at_accept = self.limit;
                    if self.released_fds.contains(&fd) {
                        self.facts |= 1 << 2;
                        if self.outstanding.iter().any(|o| o.client != c && self.clients[o.client].closed) {
                            self.facts |= 1 << 3;
                        }
                    }
                    if self.cfg.small_sndbuf {
                        let v: libc::c_int = 1;
                        unsafe {
                            libc::setsockopt(fd, libc::SOL_SOCKET, libc::SO_SNDBUF, &v as *const _ as *const libc::c_void, 4);
                        }
                    }
                    descs.push(format!("accepted client {}", c));
                    traces.push(format!("accepted client {} as descriptor {}", c, fd));
                    handled += 1;
                    continue;
                }
                // a client that closed its own socket cannot be observed: if the listener fired in
                // a call that ran to completion, the first such client has been taken off the
                // accept queue and dropped (as a refusal)
                let dropped_unseen = closed_by_itself && handled == 0 && call_completed && listener_pos.is_some();
                if refused_seen || dropped_unseen {
                    self.pending_accept.pop_front();
                    self.clients[c].refused = true;
                    self.facts |= 1 << 4;
                    let open_then = before.len() + descs.iter().filter(|d| d.starts_with("accepted")).count();
                    if open_then < 10 && refused_below.is_none() {
                        refused_below = Some((c, open_then));
                    }
                    // capacity is regained when a connection is due for release: a slot still held
                    // by a connection whose client left, with nothing owed either way, and whose
                    // hang-up an EARLIER completed call already handled, does not justify a refusal
                    if open_then >= 10 && open_then - due_before.len() < 10 && refused_below.is_none() {
                        refused_below = Some((c, open_then - due_before.len()));
                    }
                    descs.push(format!("refused client {}", c));
                    traces.push(format!("refused client {}", c));
                    handled += 1;
                    continue;
                }
                break;
            }
            accepted_desc = descs.join(", ");
            accepted_trace = traces.join(", ");
        }
        if let Ok(Ok(reqs)) = &r {
            // (nothing of this client's may be handed out by this very call either: an
            // implementation may still deliver what arrived together with the hang-up)
            let yielded_now: Vec<String> = reqs.iter().map(|q| q.inner().uri().get_abs_path().to_string()).collect();
            for (i, c) in self.clients.iter_mut().enumerate() {
                if let Some(sfd) = pre_server_fd[i] {
                    let yields_more = yielded_now.iter().any(|p| parse_tag(p).map_or(false, |t| t.0 == i));
                    if c.closed && !owed_before[i] && !yields_more && batch.iter().any(|(b, _)| *b == sfd) {
                        c.release_due = true;
                    }
                }
            }
        }
        for (i, c) in self.clients.iter_mut().enumerate() {
            // (the connection the event belonged to: the one this client had before the call)
            if let Some(sfd) = pre_server_fd[i] {
                if c.shut_rd && before_states.get(&sfd) == Some(&1) && batch.iter().any(|(b, ev)| *b == sfd && ev & 0x4 != 0) {
                    c.write_failed_known = true;
                }
            }
        }
        // short write: a connection was and stays in the outgoing state across an OUT event
        for (fd, st, _, _) in &table {
            if *st == 1 && before_states.get(fd) == Some(&1) && batch.iter().any(|(b, ev)| b == fd && ev & 0x4 != 0) {
                self.facts |= 1 << 5;
            }
        }
        self.feed_references();
        if let Some((c, n)) = refused_below {
            self.note("Poll", json!({"order": order, "batch": format!("{:?}", batch), "accept": accepted_trace}));
            return self.fail("refused-below-capacity", format!("client {} was turned away although only {} connections were open (not counting connections whose release was due since an earlier call) when the server handled the listener event", c, n));
        }
        let mut yielded_desc = vec![];
        match r {
            Err(p) => {
                self.log.push("poll panic".into());
                self.note("Poll", json!({"order": order, "batch": format!("{:?}", batch), "result": format!("PANIC {}", p)}));
                return self.fail("panic", format!("HttpServer::requests panicked: {}", p));
            }
            Ok(Err(ServerError::ShutdownEvent)) => {
                self.log.push("poll shutdown".into());
                self.note("Poll", json!({"order": order, "batch": format!("{:?}", batch), "result": "Err(ShutdownEvent)", "accept": accepted_trace}));
                if !self.killed {
                    return self.fail("spurious-shutdown", "requests() reported ShutdownEvent although the kill switch was never signalled".into());
                }
                return;
            }
            Ok(Err(e)) => {
                let kind = match &e {
                    ServerError::ConnectionError(ce) => format!("ConnectionError({})", format!("{:?}", ce).split('(').next().unwrap_or("")),
                    ServerError::IOError(ioe) => format!("IOError({:?})", ioe.kind()),
                    other => format!("{:?}", other),
                };
                self.log.push(format!("poll error {}", kind));
                self.note("Poll", json!({"order": order, "batch": format!("{:?}", batch), "result": format!("Err({:?})", e), "accept": accepted_trace}));
                if self.killed {
                    return self.fail(&format!("shutdown-not-reported:{}", kind), format!("the kill switch is signalled but requests() returned Err({:?}) instead of the shutdown indication (batch order {:?})", e, batch));
                }
                return self.fail(&format!("requests-failed:{}", kind), format!("HttpServer::requests returned Err({:?}) (batch in processing order {:?})", e, batch));
            }
            Ok(Ok(reqs)) => {
                if self.killed {
                    self.log.push("poll ok after kill".into());
                    return self.fail("shutdown-not-reported:Ok", format!("the kill switch is signalled but requests() returned Ok with {} requests", reqs.len()));
                }
                let mut conns_yielding = BTreeSet::new();
                if reqs.len() >= 2 {
                    self.facts |= 1 << 12;
                }
                let mut reqs = reqs;
                if self.cfg.kill_reinstall {
                    // descriptor numbers (and with them the order in which one call handles several
                    // connections) legitimately differ between the server with a replaced kill switch
                    // and its twin without one: the requests of one call are taken client by client
                    // (stable, so the order per connection is kept)
                    reqs.sort_by_key(|r| parse_tag(r.inner().uri().get_abs_path()).map_or(usize::MAX, |t| t.0));
                }
                for sreq in reqs {
                    let path = sreq.inner().uri().get_abs_path().to_string();
                    match parse_tag(&path) {
                        Some((c, k)) if c < self.clients.len() => {
                            conns_yielding.insert(c);
                            yielded_desc.push(format!("c{}r{}", c, k));
                            self.check_yield(c, k);
                            self.clients[c].yielded += 1;
                            self.outstanding.push(Outstanding { sreq, client: c, seq: k });
                        }
                        _ => {
                            return self.fail("yield-unknown", format!("requests() yielded a request nobody sent: {:?}", path));
                        }
                    }
                }
                if conns_yielding.len() >= 2 {
                    self.facts |= 1 << 13;
                }
            }
        }
        self.log.push(format!("poll yielded {:?} {}", yielded_desc, accepted_desc));
        self.note("Poll", json!({"order": order, "batch_in_processing_order": format!("{:?}", batch), "yielded": yielded_desc, "accept": accepted_trace,
            "server_table": table.iter().map(|e| format!("fd {} state {} in_flight {}", e.0, e.1, e.2)).collect::<Vec<_>>()}));
        self.check_descriptors("after requests()");
    }

    /// Feeds every client's reference parser with the bytes the server has taken out of that
    /// client's socket so far (segment by segment as `try_read` takes them: at most the free
    /// space of the receive buffer per read; after a parse error the parser restarts clean and
    /// the rest of that read is dropped - C11).
    fn feed_references(&mut self) {
        let in_table: BTreeSet<RawFd> = self.server_table().iter().map(|e| e.0).collect();
        let bs = crate::connx::buffer_size();
        for c in self.clients.iter_mut() {
            if !c.accepted || c.ref_off {
                continue;
            }
            let sfd = match c.server_fd {
                Some(f) if in_table.contains(&f) => f,
                _ => {
                    c.ref_off = true;
                    continue;
                }
            };
            let unread = fionread(sfd).max(0) as usize;
            let consumed = c.sent.len().saturating_sub(unread);
            if consumed <= c.ref_fed {
                continue;
            }
            let limit = c.limit_at_accept;
            let mut m = c.ref_machine.take().unwrap_or_else(|| ss::Machine::new(limit, bs));
            let mut pos = c.ref_fed;
            while pos < consumed && !c.ref_off {
                let space = bs.saturating_sub(m.partial_line_len()).max(1);
                let end = (pos + space).min(consumed);
                let mut evs = vec![];
                for b in &c.sent[pos..end] {
                    m.feed(*b, &mut evs);
                }
                // the server answers a parse error with a 400 that announces "all previous
                // unanswered requests will be dropped": requests completed by the same read as
                // the error are discarded by design, not yielded
                let failed = evs.iter().any(|e| matches!(e, ss::Event::Error(_)));
                for e in evs {
                    match e {
                        ss::Event::Request(r) if !failed => c.ref_expected.push_back(r.uri.clone()),
                        ss::Event::Unjudged => c.ref_off = true,
                        _ => {}
                    }
                }
                if m.is_dead() {
                    m = ss::Machine::new(limit, bs);
                }
                pos = end;
            }
            c.ref_fed = consumed;
            c.ref_machine = Some(m);
        }
    }

    /// After fair completion: every request the reference found in the bytes a live connection
    /// has consumed must have been yielded.
    fn check_references_drained(&mut self) {
        if self.violation.is_some() {
            return;
        }
        self.feed_references();
        let table = self.server_table();
        for i in 0..self.clients.len() {
            let c = &self.clients[i];
            if !c.accepted || c.ref_off || c.closed || c.shut_wr || c.shut_rd || c.reset {
                continue;
            }
            let sfd = match c.server_fd {
                Some(f) => f,
                None => continue,
            };
            if !table.iter().any(|e| e.0 == sfd && e.1 != 2) || fionread(sfd) != 0 {
                continue;
            }
            if let Some(u) = c.ref_expected.front() {
                let d = format!("the server has consumed all {} bytes client {} sent; they contain the complete well-formed request {:?} (after earlier rejected input, if any, was answered), but it was never yielded ({} yielded so far; sent {:?})", c.sent.len(), i, u, c.yielded, show(&c.sent[..c.sent.len().min(300)]));
                return self.fail("request-never-yielded", d);
            }
        }
    }

    fn check_yield(&mut self, c: usize, k: usize) {
        if !self.clients[c].ref_off && self.clients[c].ref_machine.is_some() {
            let want = format!("/c{}/r{}", c, k);
            match self.clients[c].ref_expected.front().cloned() {
                Some(u) if u == want || u.ends_with(&want) => {
                    self.clients[c].ref_expected.pop_front();
                }
                Some(u) => {
                    return self.fail("yield-not-next-in-stream", format!("request {} of client {} was yielded, but the next complete request in the bytes the server has consumed from that client is {:?}", want, c, u));
                }
                None => {
                    return self.fail("yield-not-in-consumed-input", format!("request {} of client {} was yielded, but the bytes the server has consumed from that client so far ({} of {} sent) contain no complete request that has not been yielded already", want, c, self.clients[c].ref_fed, self.clients[c].sent.len()));
                }
            }
        }
        if self.cfg.yield_promptly {
            // where does request k end in what the client sent?
            let sent = &self.clients[c].sent;
            let needle = format!(" /c{}/r{} HTTP/1.", c, k).into_bytes();
            if let Some(p) = sent.windows(needle.len()).position(|w| w == &needle[..]) {
                let start = sent[..p].iter().rposition(|b| *b == b'\n').map(|i| i + 1).unwrap_or(0);
                let evs = ss::parse_all(&sent[start..], usize::MAX >> 1, 1024);
                if let Some((at, _)) = evs.iter().find(|(_, e)| matches!(e, ss::Event::Request(_))) {
                    let end = start + at;
                    if self.clients[c].accepted && self.clients[c].consumed_before_poll >= end {
                        return self.fail("stale-request-yielded", format!("request /c{}/r{} ends at stream offset {} and the server had already consumed {} bytes of this client's input before this call: it was retained across an earlier call (which reported a parse error) and is yielded now", c, k, end, self.clients[c].consumed_before_poll));
                    }
                }
            }
        }
        if self.cfg.never_yield.contains(&(c, k)) {
            return self.fail("rejected-request-yielded", format!("request /c{}/r{} is malformed (it is answered with 400) but was yielded to the application", c, k));
        }
        // the request must be one this client has completely sent, not yielded before, in order
        let sent = self.clients[c].sent.clone();
        let want = format!("/c{}/r{}", c, k);
        if self.cfg.clients[c].role == Role::WellBehaved {
            let evs = ss::parse_all(&sent, usize::MAX >> 1, 1024);
            let complete: Vec<String> = evs.iter().filter_map(|(_, e)| if let ss::Event::Request(r) = e { Some(r.uri.clone()) } else { None }).collect();
            if !complete.iter().any(|u| u == &want) {
                return self.fail("yield-not-sent", format!("request {} was yielded but client {} has not sent it completely (sent so far: {:?})", want, c, show(&sent)));
            }
        } else {
            let needle = format!(" {} HTTP/1.", want).into_bytes();
            if !sent.windows(needle.len()).any(|w| w == &needle[..]) {
                return self.fail("yield-not-sent", format!("request {} was yielded but client {} never sent it (sent so far: {:?})", want, c, show(&sent)));
            }
        }
        if self.outstanding.iter().any(|o| o.client == c && o.seq == k) || self.clients[c].supplied.iter().any(|(s, _)| *s == k) {
            return self.fail("yield-twice", format!("request {} was yielded twice", want));
        }
        if self.cfg.clients[c].role == Role::WellBehaved && k != self.clients[c].yielded {
            return self.fail("yield-order", format!("client {}'s requests yielded out of order: r{} when r{} was next", c, k, self.clients[c].yielded));
        }
    }

    fn respond(&mut self, i: usize, size: usize) {
        if i >= self.outstanding.len() {
            return;
        }
        if i != 0 {
            self.facts |= 1 << 6;
        }
        let o = self.outstanding.remove(i);
        if self.clients[o.client].closed {
            self.facts |= 1 << 7;
        }
        let (c, k) = (o.client, o.seq);
        let resp = o.sreq.process(|req| {
            let mut r = Response::new(req.http_version(), StatusCode::OK);
            let body = response_body(c, k, size);
            r.set_body(Body::new(body));
            r
        });
        let r = util::catch(|| self.server.as_mut().unwrap().respond(resp));
        self.last_answered = Some(o);
        self.clients[c].supplied.push((k, size));
        if self.clients[c].shut_rd {
            self.clients[c].answered_after_shut_rd = true;
        }
        self.total_supplied += 1;
        self.log.push(format!("respond c{}r{} size {}", c, k, size));
        self.note(&format!("Respond(c{}r{}, body {} bytes)", c, k, size), json!({"result": format!("{:?}", r.as_ref().map(|x| x.as_ref().map(|_| ()).map_err(|e| format!("{:?}", e))))}));
        match r {
            Err(p) => self.fail("panic", format!("HttpServer::respond panicked: {}", p)),
            Ok(Err(e)) => self.fail("respond-failed", format!("HttpServer::respond returned Err({:?})", e)),
            Ok(Ok(())) => {}
        }
    }

    /// Everything client `c` has received must be explainable (C07) and well formed (C05).
    fn check_client_rx(&mut self, c: usize) {
        let rx = self.clients[c].rx.clone();
        if self.clients[c].refused {
            let n = rx.len().min(SERVER_FULL.len());
            if rx[..n] != SERVER_FULL[..n] || rx.len() > SERVER_FULL.len() {
                self.fail("refusal-message", format!("client {} was refused at capacity but received {:?} instead of the fixed 503 message", c, show(&rx)));
            }
            return;
        }
        let (rs, _used, tail) = read_all(&rx);
        if let Err(m) = tail {
            return self.fail("client-received-garbage", format!("client {} received bytes that are not a sequence of well-formed responses: {}", c, m));
        }
        let sent = self.clients[c].sent.clone();
        let limit = if self.clients[c].accepted { self.clients[c].limit_at_accept } else { self.limit };
        let evs = ss::parse_all(&sent, limit, 1024);
        let strict = self.cfg.clients[c].role == Role::WellBehaved;
        let expects = if strict {
            evs.iter().filter(|(_, e)| matches!(e, ss::Event::Continue(_))).count()
        } else {
            sent.windows(6).filter(|w| w.eq_ignore_ascii_case(b"expect")).count()
        };
        let has_error = evs.iter().any(|(_, e)| matches!(e, ss::Event::Error(_)));
        let mut n200 = 0usize;
        let mut n100 = 0usize;
        let mut n400 = 0usize;
        for r in &rs {
            match r.code {
                200 => {
                    let body = String::from_utf8_lossy(&r.body).to_string();
                    let tag = body.split(':').next().unwrap_or("").to_string();
                    let supplied = self.clients[c].supplied.clone();
                    match supplied.get(n200) {
                        Some((k, size)) if tag == format!("c{}r{}", c, k) && r.body == response_body(c, *k, *size) => {}
                        Some((k, size)) if tag == format!("c{}r{}", c, k) && r.body.len() == (*size).max(tag.len() + 1) => {
                            let want = response_body(c, *k, *size);
                            let at = r.body.iter().zip(want.iter()).position(|(a, b)| a != b).unwrap_or(0);
                            return self.fail("response-body-corrupted", format!("client {} received response #{} (c{}r{}, {} bytes) whose body differs from what the application supplied from offset {}: got {:?}, supplied {:?}", c, n200, c, k, size, at, show(&r.body[at..r.body.len().min(at + 40)]), show(&want[at..want.len().min(at + 40)])));
                        }
                        other => {
                            let owner = tag.strip_prefix('c').and_then(|t| t.split('r').next()).and_then(|x| x.parse::<usize>().ok());
                            let sig = if owner.is_some() && owner != Some(c) { "response-misrouted" } else { "response-order" };
                            return self.fail(
                                sig,
                                format!("client {} received response #{} with body tag {:?} ({} bytes); the application's responses to this client's requests are, in supply order, {:?} (next expected: {:?})", c, n200, tag, r.body.len(), supplied, other),
                            );
                        }
                    }
                    n200 += 1;
                }
                100 => {
                    n100 += 1;
                    self.facts |= 1 << 16;
                }
                400 => {
                    n400 += 1;
                    self.facts |= 1 << 15;
                    if self.cfg.chunk_replies {
                        // the k-th 400 answers the k-th chunk (the client waits for each reply)
                        if let Some(chunk) = self.cfg.clients[c].script.get(n400 - 1) {
                            if let Some((_, ss::Event::Error(ss::ErrClass::Payload(l, n)))) = ss::parse_all(chunk, limit, 1024).first() {
                                let body = String::from_utf8_lossy(&r.body).to_string();
                                if !(body.contains(&l.to_string()) && body.contains(&n.to_string())) {
                                    return self.fail("size-limit-400-body", format!("400 #{} received by client {} answers a declared length {} over the limit {} but does not report both numbers: {:?}", n400, c, n, l, body));
                                }
                            }
                        }
                    } else if self.cfg.property == "C04" {
                        // the 400 for a size-limit violation reports both numbers
                        if let Some((l, n)) = evs.iter().find_map(|(_, e)| if let ss::Event::Error(ss::ErrClass::Payload(l, n)) = e { Some((*l, *n)) } else { None }) {
                            let body = String::from_utf8_lossy(&r.body).to_string();
                            if !(body.contains(&l.to_string()) && body.contains(&n.to_string())) {
                                return self.fail("size-limit-400-body", format!("the 400 answering a declared length {} over the limit {} does not report both numbers: {:?}", n, l, body));
                            }
                        }
                    }
                }
                500 => {
                    // the server's reply to a failed read on this client's own socket
                    // (a server-generated reply to this client's own input; allowed)
                }
                other => {
                    return self.fail("unexpected-status", format!("client {} received a {} response it gave no cause for", c, other));
                }
            }
        }
        if n100 > expects {
            return self.fail("unjustified-100", format!("client {} received {} interim 100 responses but sent only {} qualifying Expect heads", c, n100, expects));
        }
        if n400 > 0 && !has_error && self.cfg.clients[c].role == Role::WellBehaved {
            return self.fail("unjustified-400", format!("client {} sent only well-formed requests (under the limit in force at accept: {}) but received a 400; sent {:?}", c, limit, show(&sent)));
        }
        if n400 > 0 && !has_error {
            // adversaries: a 400 needs malformed input (or input over the limit)
            return self.fail("unjustified-400", format!("client {} received a 400 but its input {:?} is valid under limit {}", c, show(&sent), limit));
        }
    }

    /// Capacity and descriptor accounting (C10), evaluated in every state.
    fn check_descriptors(&mut self, when: &str) {
        let fds = self.server_fds();
        let table = self.server_table();
        let fixed = 2 + self.cfg.kill_switch as usize * (self.kill.is_some() as usize);
        if table.len() > 10 {
            return self.fail("over-capacity", format!("{} the server holds {} connections", when, table.len()));
        }
        if fds.len() > fixed + 10 {
            return self.fail("over-capacity", format!("{} the server holds {} descriptors (listener, epoll{} and {} more)", when, fds.len(), if fixed == 3 { ", kill switch" } else { "" }, fds.len() - fixed));
        }
        if fds.len() != fixed + table.len() {
            return self.fail("descriptor-accounting", format!("{} the server holds descriptors {:?} but serves {} connections ({:?})", when, fds, table.len(), table.iter().map(|e| e.0).collect::<Vec<_>>()));
        }
    }

    pub fn key(&self) -> u128 {
        let table = self.server_table();
        let mut t = vec![];
        for (fd, st, inf, dg) in &table {
            t.extend_from_slice(&fd.to_le_bytes());
            t.push(*st);
            t.extend_from_slice(&inf.to_le_bytes());
            t.extend_from_slice(&(dg.len() as u32).to_le_bytes());
            t.extend_from_slice(dg);
            t.extend_from_slice(&fionread(*fd).to_le_bytes());
        }
        let mut cl = vec![];
        for c in &self.clients {
            cl.extend_from_slice(&[c.connected as u8, c.accepted as u8, c.refused as u8, c.closed as u8, c.shut_rd as u8, c.shut_wr as u8, c.eof as u8, c.reset as u8, c.sent_chunks as u8, c.yielded as u8]);
            cl.extend_from_slice(&(c.rx.len() as u32).to_le_bytes());
            cl.extend_from_slice(&util::hash64(&[&c.rx]).to_le_bytes());
            cl.extend_from_slice(&(if c.closed { -1 } else { fionread(c.fd) }).to_le_bytes());
            cl.extend_from_slice(&c.server_fd.unwrap_or(-1).to_le_bytes());
            cl.extend_from_slice(&(c.limit_at_accept as u64).to_le_bytes());
            for (k, s) in &c.supplied {
                cl.extend_from_slice(&[*k as u8]);
                cl.extend_from_slice(&(*s as u32).to_le_bytes());
            }
            cl.push(0xfe);
        }
        let mut o = vec![];
        for x in &self.outstanding {
            o.extend_from_slice(&[x.client as u8, x.seq as u8]);
        }
        let pa: Vec<u8> = self.pending_accept.iter().map(|x| *x as u8).collect();
        let ready = format!("{:?}", self.ready_set());
        let masks = self.interest_masks();
        let misc = [self.killed as u8, self.polls_after_kill.min(3) as u8, self.kill_installed as u8 | (self.signalled_early as u8) << 1 | (self.reinstalls as u8) << 2, if self.cfg.late_duplicates { self.last_answered.as_ref().map_or(255, |o| o.client as u8) } else { 0 }];
        let rel: Vec<u8> = self.released_fds.iter().flat_map(|f| f.to_le_bytes()).collect();
        util::hash128(&[&t, &cl, &o, &pa, ready.as_bytes(), masks.as_bytes(), &misc, &(self.limit as u64).to_le_bytes(), &rel])
    }

    fn orders_for(&self, n: usize) -> Vec<u16> {
        let mut v = vec![0u16];
        match self.cfg.orders {
            Orders::Asc => {}
            Orders::AscRev => {
                if n >= 2 {
                    v.push(1000);
                }
            }
            Orders::Full => {
                for j in 1..n.min(12) {
                    v.push(j as u16);
                }
                if n >= 3 {
                    v.push(1000);
                }
                if n == 3 {
                    // the two permutations not covered by rotations/reverse: [0,2,1]=1, [1,2,0]=3
                    v.push(2001);
                    v.push(2003);
                }
            }
        }
        v
    }

    pub fn enabled(&self) -> Vec<SAct> {
        if self.violation.is_some() || self.depth >= self.cfg.max_depth {
            return vec![];
        }
        let mut v = vec![];
        let ready = self.ready_set();
        if self.killed {
            if self.polls_after_kill < 3 {
                for o in self.orders_for(ready.len()) {
                    v.push(SAct::Poll(o));
                }
            }
            return v;
        }
        for (i, c) in self.clients.iter().enumerate() {
            let cc = &self.cfg.clients[i];
            if cc.role == Role::Filler {
                continue;
            }
            if !c.connected {
                v.push(SAct::Connect(i as u8));
                continue;
            }
            if c.closed {
                continue;
            }
            if c.sent_chunks < cc.script.len() && !c.shut_wr && !c.reset && (!self.cfg.chunk_replies || read_all(&c.rx).0.iter().filter(|r| r.code >= 200).count() >= c.sent_chunks) {
                v.push(SAct::Send(i as u8));
            }
            if cc.reads && !c.shut_rd && !c.eof && !c.reset && fionread(c.fd) > 0 {
                v.push(SAct::Recv(i as u8, 0));
                if cc.partial_recv && fionread(c.fd) > 1024 {
                    v.push(SAct::Recv(i as u8, 1));
                }
            }
            if cc.can_close {
                v.push(SAct::Close(i as u8));
            }
            if cc.can_shut_rd && !c.shut_rd {
                v.push(SAct::ShutRd(i as u8));
            }
            if cc.can_shut_wr && !c.shut_wr {
                v.push(SAct::ShutWr(i as u8));
            }
        }
        if self.epoll_readable() {
            for o in self.orders_for(ready.len()) {
                v.push(SAct::Poll(o));
            }
        }
        let n = self.outstanding.len().min(self.cfg.max_outstanding_for_respond);
        let idxs: Vec<usize> = if self.cfg.respond_any { (0..n).collect() } else { (0..n.min(1)).collect() };
        for i in idxs {
            for s in 0..self.cfg.resp_sizes.len() {
                v.push(SAct::Respond(i as u8, s as u8));
            }
        }
        if self.outstanding.len() >= 2 && self.cfg.respond_any {
            v.push(SAct::RespondAll(0));
        }
        if self.cfg.kill_action && (self.kill.is_some() || self.cfg.kill_install_action) && !self.signalled_early {
            v.push(SAct::Kill);
        }
        if self.cfg.kill_install_action && (!self.kill_installed || (self.cfg.kill_reinstall && self.reinstalls == 0 && !self.killed)) {
            v.push(SAct::InstallKill);
        }
        if self.cfg.late_duplicates {
            if let Some(o) = &self.last_answered {
                // only once the connection it came from has been released
                // (answering a request twice is the application's mistake; the implementation
                // tolerates it when the identifier names no connection any more - which is the
                // only case explored: if another client's connection has taken the number the
                // duplicate is indistinguishable from an answer for that client)
                let cl = &self.clients[o.client];
                if cl.accepted && cl.server_fd.is_none() && cl.last_server_fd.map_or(false, |f| !self.server_table().iter().any(|e| e.0 == f)) {
                    v.push(SAct::LateDuplicate);
                }
            }
        }
        if self.cfg.flush_action && self.server_table().iter().any(|e| e.1 == 1) {
            v.push(SAct::Flush);
        }
        for l in 0..self.cfg.limits.len() {
            if self.cfg.limits[l] != self.limit {
                v.push(SAct::SetLimit(l as u8));
            }
        }
        v
    }

    // -----------------------------------------------------------------------------------------
    // Terminal probes (run on the re-executed copy of a state; they consume it)

    fn drain_clients(&mut self, only_roles: &[Role]) -> bool {
        let mut progress = false;
        for i in 0..self.clients.len() {
            let cc = &self.cfg.clients[i];
            if !only_roles.contains(&cc.role) || !cc.reads {
                continue;
            }
            let c = &self.clients[i];
            if !c.connected || c.closed || c.shut_rd || c.eof || c.reset {
                continue;
            }
            if self.recv(i, 0) > 0 {
                progress = true;
            }
        }
        progress
    }

    /// Fair completion: the application answers everything, the caller polls while the epoll
    /// descriptor is readable, clients drain; until nothing moves. Returns the number of polls,
    /// or None if the poll budget was exhausted while the descriptor stayed readable.
    fn run_to_quiescence(&mut self, roles: &[Role], budget: usize) -> Option<usize> {
        let mut polls = 0usize;
        loop {
            let mut progress = false;
            while !self.outstanding.is_empty() && !self.probe_without_answers {
                self.respond(0, 5);
                progress = true;
                if self.violation.is_some() {
                    return Some(polls);
                }
            }
            while self.epoll_readable() {
                if polls >= budget {
                    return None;
                }
                let before = self.key();
                self.poll(0);
                polls += 1;
                if self.violation.is_some() {
                    return Some(polls);
                }
                if !self.outstanding.is_empty() && !self.probe_without_answers {
                    progress = true;
                    break;
                }
                if self.key() != before {
                    progress = true;
                } else {
                    // readable but nothing changes: either clients must drain first or it spins
                    break;
                }
            }
            if self.drain_clients(roles) {
                progress = true;
            }
            if self.violation.is_some() {
                return Some(polls);
            }
            if !progress {
                return Some(polls);
            }
        }
    }

    fn budget(&self) -> usize {
        let pending_bytes: usize = self.clients.iter().map(|c| c.supplied.iter().map(|(_, s)| *s + 200).sum::<usize>()).sum::<usize>() + self.outstanding.len() * 300;
        let unread_in: usize = self.clients.iter().map(|c| c.sent.len()).sum();
        80 + 4 * self.clients.len() + pending_bytes / 1024 + unread_in / 256
    }

    /// C08: unsent output is work outstanding whether or not other requests of the connection
    /// are still unanswered: polling while the descriptor signals and clients draining must
    /// deliver every response supplied so far even if the application answers nothing else.
    pub fn closure_without_answers(&mut self) {
        if self.total_supplied == 0 || self.outstanding.is_empty() {
            return; // closure_all covers it
        }
        self.probe_without_answers = true;
        let budget = self.budget();
        let r = self.run_to_quiescence(&[Role::WellBehaved, Role::Filler], budget);
        self.probe_without_answers = false;
        if r.is_none() || self.violation.is_some() {
            return; // spinning is judged by closure_all
        }
        for i in 0..self.clients.len() {
            if self.cfg.clients[i].role != Role::WellBehaved || !self.clients[i].connected {
                continue;
            }
            let c = &self.clients[i];
            if c.closed || c.shut_rd || c.eof || c.reset {
                continue;
            }
            let (rs, _, _) = read_all(&c.rx);
            let n200 = rs.iter().filter(|r| r.code == 200).count();
            if n200 != c.supplied.len() {
                let d = format!("the application supplied {} responses for client {} and still owes answers to other requests; after polling while the epoll descriptor signalled and the client draining, the client holds {} of them; the epoll descriptor is {} (interest {}; server table {:?})", c.supplied.len(), i, n200, if self.epoll_readable() { "readable" } else { "not readable: a caller waiting on it blocks with unsent output" }, self.interest_masks(), self.server_table().iter().map(|e| (e.0, e.1, e.2)).collect::<Vec<_>>());
                return self.fail("stall:supplied-not-delivered", d);
            }
        }
    }

    /// C10: a client waiting at the listener is accepted or turned away by the polls that follow,
    /// whatever the application still owes to other connections (it answers nothing here).
    pub fn pending_connection_probe(&mut self) {
        if self.pending_accept.is_empty() {
            return;
        }
        let mut polls = 0;
        while self.epoll_readable() && polls < 4 && self.violation.is_none() {
            self.poll(0);
            polls += 1;
        }
        if self.violation.is_some() || polls == 0 {
            return;
        }
        for i in 0..self.clients.len() {
            let c = &self.clients[i];
            if c.connected && !c.closed && !(c.shut_rd && c.shut_wr) && !c.accepted && !c.refused {
                let d = format!("client {} is connected and waiting at the listener; after {} further polls (the application answering nothing meanwhile) the server has neither accepted it nor turned it away ({} connections open, server table {:?}; interest {})", i, polls, self.server_table().len(), self.server_table().iter().map(|e| (e.0, e.1, e.2)).collect::<Vec<_>>(), self.interest_masks());
                return self.fail("pending-connection-ignored", d);
            }
        }
    }

    /// C08 closure.
    pub fn closure_all(&mut self) {
        let roles = [Role::WellBehaved, Role::Filler];
        let budget = self.budget();
        match self.run_to_quiescence(&roles, budget) {
            None => {
                return self.fail("spin", format!("after {} polls (budget) the epoll descriptor is still readable although the application answered everything and clients drained: the caller spins; ready set {:?}, interest {}", budget, self.ready_set(), self.interest_masks()));
            }
            Some(_) => {}
        }
        if self.violation.is_some() {
            return;
        }
        if self.cfg.chunk_replies {
            // every chunk sent so far is a rejected request of its own: each must have been answered
            for i in 0..self.clients.len() {
                {
                    let c = &self.clients[i];
                    if !c.connected || c.closed || c.shut_rd || c.eof || c.reset {
                        continue;
                    }
                }
                self.recv(i, 0);
                if self.violation.is_some() {
                    return;
                }
                let c = &self.clients[i];
                let limit = if c.accepted { c.limit_at_accept } else { self.limit };
                let all_rejected = self.cfg.clients[i].script[..c.sent_chunks].iter().all(|ch| matches!(ss::parse_all(ch, limit, 1024).first(), Some((_, ss::Event::Error(_)))));
                let n400 = read_all(&c.rx).0.iter().filter(|r| r.code == 400).count();
                if all_rejected && n400 != c.sent_chunks {
                    let d = format!("client {} sent {} rejected requests one by one (waiting for each reply) but holds {} 400 responses after fair completion; sent {:?}", i, c.sent_chunks, n400, show(&c.sent));
                    return self.fail("stall:no-400", d);
                }
            }
            return;
        }
        for i in 0..self.clients.len() {
            if self.cfg.clients[i].role != Role::WellBehaved || !self.clients[i].connected {
                continue;
            }
            let c = &self.clients[i];
            let evs = ss::parse_all(&c.sent, if c.accepted { c.limit_at_accept } else { self.limit }, 1024);
            let complete = evs.iter().filter(|(_, e)| matches!(e, ss::Event::Request(_))).count();
            let expects = evs.iter().filter(|(_, e)| matches!(e, ss::Event::Continue(_))).count();
            let (rs, _, _) = read_all(&c.rx);
            let n200 = rs.iter().filter(|r| r.code == 200).count();
            let n100 = rs.iter().filter(|r| r.code == 100).count();
            let readable = self.epoll_readable();
            if evs.iter().any(|(_, e)| matches!(e, ss::Event::Error(_))) {
                // this client's own input is rejected: it must have been told so
                if !rs.iter().any(|r| r.code == 400) {
                    let d = format!("client {} sent input that is rejected ({:?}) but received no 400 after fair completion (received {:?})", i, evs.last(), rs.iter().map(|r| r.code).collect::<Vec<_>>());
                    return self.fail("stall:no-400", d);
                }
                continue;
            }
            if c.yielded != complete {
                let d = format!("client {} has sent {} complete requests but {} were yielded; after fair completion the epoll descriptor is {} (sent {:?}; interest {}; server table {:?})", i, complete, c.yielded, if readable { "still readable" } else { "not readable: a caller waiting on it blocks for ever (lost wake-up)" }, show(&c.sent), self.interest_masks(), self.server_table().iter().map(|e| (e.0, e.1, e.2)).collect::<Vec<_>>());
                return self.fail("stall:not-yielded", d);
            }
            if n200 != c.supplied.len() {
                let d = format!("the application supplied {} responses for client {} but the client received {} in full; epoll descriptor {} (interest {}; received {} bytes)", c.supplied.len(), i, n200, if readable { "still readable" } else { "not readable (lost wake-up)" }, self.interest_masks(), c.rx.len());
                return self.fail("stall:not-delivered", d);
            }
            if n100 != expects {
                let d = format!("client {} sent {} qualifying Expect heads but received {} interim 100 responses", i, expects, n100);
                return self.fail("stall:no-100", d);
            }
        }
        if self.epoll_readable() {
            let d = format!("no client input, unsent output or unanswered request remains, but the epoll descriptor still signals readiness (ready set {:?}, interest {})", self.ready_set(), self.interest_masks());
            return self.fail("spin", d);
        }
        // nobody is left waiting at the listener: every client that connected has been accepted
        // or turned away (503 + close)
        for i in 0..self.clients.len() {
            let c = &self.clients[i];
            if c.connected && !c.closed && !c.accepted && !c.refused {
                let d = format!("client {} connected but, after fair completion, the server has neither accepted nor refused it and its epoll descriptor is not readable ({} connections open; interest {})", i, self.server_table().len(), self.interest_masks());
                return self.fail("pending-connection-ignored", d);
            }
        }
        self.check_references_drained();
    }

    /// C09 closure: a fresh witness completes a round trip; afterwards dead connections are gone.
    pub fn closure_witness(&mut self, w: usize, order: u32) {
        let budget = self.budget() + 40;
        if !self.clients[w].connected {
            self.connect(w);
        }
        // the witness sends its remaining script (one tagged request)
        let mut polls = 0usize;
        while self.clients[w].sent_chunks < self.cfg.clients[w].script.len() {
            self.send(w);
        }
        let want = {
            let evs = ss::parse_all(&self.clients[w].sent, usize::MAX >> 1, 1024);
            evs.iter().filter(|(_, e)| matches!(e, ss::Event::Request(_))).count()
        };
        loop {
            let mut progress = false;
            // only the witness's own requests are answered: the other clients' requests stay
            // unanswered for as long as the explored history left them so
            while let Some(pos) = self.outstanding.iter().position(|o| o.client == w) {
                self.respond(pos, 5);
                progress = true;
                if self.violation.is_some() {
                    return;
                }
            }
            if self.epoll_readable() && polls < budget {
                let before = self.key();
                self.poll(order);
                polls += 1;
                if self.violation.is_some() {
                    return;
                }
                if self.key() != before || !self.outstanding.is_empty() {
                    progress = true;
                }
            }
            if !self.clients[w].eof && !self.clients[w].reset && self.recv(w, 0) > 0 {
                progress = true;
            }
            if self.violation.is_some() {
                return;
            }
            let (rs, _, _) = read_all(&self.clients[w].rx);
            if rs.iter().filter(|r| r.code == 200).count() >= want {
                break;
            }
            if !progress {
                let d = format!("the witness client's request was not served: yielded {} of {}, received {} responses, {} polls made, epoll descriptor {} (interest {}, server table {:?})", self.clients[w].yielded, want, rs.len(), polls, if self.epoll_readable() { "readable" } else { "not readable" }, self.interest_masks(), self.server_table().iter().map(|e| (e.0, e.1, e.2)).collect::<Vec<_>>());
                return self.fail("witness-starved", d);
            }
        }
    }

    /// C11 at the server: let the server consume what was sent, then send every remaining chunk
    /// on its own; well-formed requests sent after malformed input was consumed must be yielded
    /// and answered.
    pub fn closure_c11(&mut self) {
        let roles = [Role::WellBehaved, Role::Adversary, Role::Filler];
        let budget = self.budget() + 40;
        if self.run_to_quiescence(&roles, budget).is_none() || self.violation.is_some() {
            return;
        }
        let mut sent_in_closure: Vec<(usize, usize)> = vec![];
        for c in 0..self.clients.len() {
            if !self.clients[c].connected || self.clients[c].closed || self.clients[c].shut_wr {
                continue;
            }
            while self.clients[c].sent_chunks < self.cfg.clients[c].script.len() {
                let chunk = self.cfg.clients[c].script[self.clients[c].sent_chunks].clone();
                let text = String::from_utf8_lossy(&chunk).to_string();
                for (mc, mk) in &self.cfg.must_yield_after {
                    // counted only when the whole request travels in this chunk
                    if *mc == c && text.contains(&format!(" /c{}/r{} HTTP/1.", mc, mk)) && text.contains("\r\n\r\n") {
                        sent_in_closure.push((*mc, *mk));
                    }
                }
                self.send(c);
                if self.run_to_quiescence(&roles, budget).is_none() || self.violation.is_some() {
                    return;
                }
            }
        }
        for (c, k) in sent_in_closure {
            let answered = self.clients[c].supplied.iter().any(|(s, _)| *s == k);
            let (rs, _, _) = read_all(&self.clients[c].rx);
            let tag = format!("c{}r{}:", c, k);
            let got = rs.iter().any(|r| r.code == 200 && r.body.starts_with(tag.as_bytes()));
            if !answered || !got {
                let d = format!("well-formed request /c{}/r{} was sent on its own after the server had consumed the earlier malformed input, but it was {} (client received {:?})", c, k, if !answered { "never yielded" } else { "yielded but its response never arrived" }, rs.iter().map(|r| r.code).collect::<Vec<_>>());
                return self.fail("later-valid-request-fails", d);
            }
        }
        self.check_references_drained();
    }

    /// After the application answered everything: connections whose client is gone are released.
    pub fn release_check(&mut self) {
        let budget = self.budget() + 40;
        if self.run_to_quiescence(&[Role::WellBehaved, Role::Filler], budget).is_none() {
            // spinning is judged by C08 only; give the sweep its chance and go on
        }
        if self.violation.is_some() {
            return;
        }
        let fixed = 2 + self.kill.is_some() as usize;
        let mut must = 0usize;
        let mut may = 0usize;
        let mut who = vec![];
        for (i, c) in self.clients.iter().enumerate() {
            if !c.accepted {
                continue;
            }
            if c.closed || c.shut_wr {
                who.push(format!("client {} gone", i));
                continue;
            }
            if c.shut_rd {
                // The server cannot know that this client stopped reading until a write fails
                // (and a write is only attempted when the socket is writable). If it does know
                // - it marked the connection closed, or already released it - and everything is
                // answered, the connection must be gone; otherwise it is legitimately held.
                let entry = c.server_fd.and_then(|fd| self.server_table().iter().find(|e| e.0 == fd).map(|e| e.1));
                match entry {
                    None => {
                        who.push(format!("client {} shut RD, already released", i));
                        continue;
                    }
                    Some(2) => {
                        who.push(format!("client {} shut RD, a write failed and the server marked it closed: must be gone", i));
                        continue;
                    }
                    Some(_) if c.write_failed_known => {
                        who.push(format!("client {} shut RD and the server has since handled a writability event with output pending (that write failed): must be gone", i));
                        continue;
                    }
                    Some(_) if c.answered_after_shut_rd && c.server_fd.map_or(false, |fd| {
                        // (only when the socket takes writes at all: with its buffer still full of
                        // unread output no write is attempted and the server cannot know)
                        let mut p = libc::pollfd { fd, events: libc::POLLOUT, revents: 0 };
                        unsafe { libc::poll(&mut p, 1, 0) > 0 && p.revents & (libc::POLLOUT | libc::POLLERR) != 0 }
                    }) => {
                        // C09, last sentence: the application supplied an answer after the client
                        // stopped reading, and polling has settled: the write that delivers it was
                        // due and can only have failed
                        who.push(format!("client {} shut RD and the application has supplied an answer since (the socket is writable, so the write that was due can only have failed): must be gone", i));
                        continue;
                    }
                    Some(_) => {
                        who.push(format!("client {} shut RD but the server has had no failed write yet: held", i));
                        must += 1;
                        continue;
                    }
                }
            }
            // a connected client that has not been accepted yet holds no server descriptor
            must += 1;
            who.push(format!("client {} open", i));
        }
        let fds = self.server_fds();
        let n = fds.len();
        if n < fixed + must || n > fixed + must + may {
            let d = format!("after the application answered every yielded request and polling settled, the server holds {} descriptors {:?}; expected listener + epoll{} + one per still-open connection = {}..{} ({}); server table {:?}", n, fds, if fixed == 3 { " + kill switch" } else { "" }, fixed + must, fixed + must + may, who.join(", "), self.server_table().iter().map(|e| (e.0, e.1, e.2)).collect::<Vec<_>>());
            return self.fail(if n > fixed + must + may { "connection-not-released" } else { "live-connection-dropped" }, d);
        }
        // refused clients: exactly the fixed message, then disconnect
        for i in 0..self.clients.len() {
            if self.clients[i].refused && !self.clients[i].closed && !self.clients[i].shut_rd {
                self.recv(i, 0);
                let c = &self.clients[i];
                if c.reset {
                    continue; // connection reset counts as disconnected
                }
                if c.rx != SERVER_FULL || !c.eof {
                    let d = format!("client {} connected at capacity: received {:?} (eof {}), expected the 120-byte 503 message followed by disconnect", i, show(&c.rx), c.eof);
                    return self.fail("refusal-message", d);
                }
            }
        }
    }

    /// C08: flush_outgoing_writes delivers queued responses that fit the socket buffer.
    pub fn flush_probe(&mut self) {
        if self.violation.is_some() {
            return;
        }
        let r = util::catch(|| self.server.as_mut().unwrap().flush_outgoing_writes());
        if let Err(p) = r {
            return self.fail("panic", format!("flush_outgoing_writes panicked: {}", p));
        }
        for i in 0..self.clients.len() {
            if self.cfg.clients[i].role != Role::WellBehaved || !self.clients[i].accepted {
                continue;
            }
            self.recv(i, 0);
            if self.violation.is_some() {
                return;
            }
            let c = &self.clients[i];
            let small_only = c.supplied.iter().all(|(_, s)| *s < 2000);
            if !small_only {
                continue;
            }
            let (rs, _, _) = read_all(&c.rx);
            let n200 = rs.iter().filter(|r| r.code == 200).count();
            if n200 != c.supplied.len() {
                let d = format!("after flush_outgoing_writes client {} holds {} of the {} (small) responses supplied for it", i, n200, c.supplied.len());
                return self.fail("flush-incomplete", d);
            }
        }
        // flushing must leave the server in a state from which polling still works: no spin,
        // no lost wake-up, later input still served. Responses larger than the socket buffer
        // are exempt (the statement only promises delivery of responses that fit; the
        // implementation gives up on a connection whose socket would block).
        let all_small = self.clients.iter().all(|c| c.supplied.iter().all(|(_, s)| *s < 2000)) && self.outstanding.is_empty();
        if !all_small {
            return;
        }
        self.closure_all();
        if let Some((sig, d)) = self.violation.take() {
            self.violation = Some((format!("after-flush:{}", sig), format!("after flush_outgoing_writes: {}", d)));
        }
    }
}

impl<'a> World<'a> {
    /// C08: a response left partly written by an earlier short write is "queued" too: once the
    /// client has emptied its socket and what is still owed (remainder + queued responses)
    /// fits an empty socket buffer, one flush_outgoing_writes() must deliver all of it.
    /// (An empty AF_UNIX stream socket accepts at least (SO_SNDBUF/2 - 64) >= 2240 bytes even
    /// at the minimal SO_SNDBUF; the rule only judges remainders estimated below 1800 bytes.)
    pub fn flush_remainder_probe(&mut self) {
        if self.violation.is_some() {
            return;
        }
        let mut judged = vec![];
        for i in 0..self.clients.len() {
            if self.cfg.clients[i].role != Role::WellBehaved || !self.clients[i].accepted {
                continue;
            }
            let c = &self.clients[i];
            if c.closed || c.shut_rd || c.eof || c.reset || c.supplied.is_empty() {
                continue;
            }
            let sfd = match c.server_fd {
                Some(f) => f,
                None => continue,
            };
            if !self.server_table().iter().any(|e| e.0 == sfd && e.1 == 1) {
                continue; // nothing to write for this connection
            }
            self.recv(i, 0);
            if self.violation.is_some() {
                return;
            }
            let c = &self.clients[i];
            let owed: usize = c.supplied.iter().map(|(_, s)| *s + 200).sum();
            if owed.saturating_sub(c.rx.len()) <= 1800 {
                judged.push(i);
            }
        }
        if judged.is_empty() {
            return;
        }
        let r = util::catch(|| self.server.as_mut().unwrap().flush_outgoing_writes());
        if let Err(p) = r {
            return self.fail("panic", format!("flush_outgoing_writes panicked: {}", p));
        }
        for i in judged {
            self.recv(i, 0);
            if self.violation.is_some() {
                return;
            }
            let c = &self.clients[i];
            let (rs, _, _) = read_all(&c.rx);
            let n200 = rs.iter().filter(|r| r.code == 200).count();
            if n200 != c.supplied.len() {
                let d = format!("client {} had emptied its socket and less than 1800 bytes of the {} supplied responses were still owed (they fit the empty socket buffer), yet after flush_outgoing_writes it holds only {} complete responses ({} bytes received)", i, c.supplied.len(), n200, c.rx.len());
                return self.fail("flush-incomplete-remainder", d);
            }
        }
    }
}

impl<'a> Drop for World<'a> {
    fn drop(&mut self) {
        self.outstanding.clear();
        self.server = None;
        for c in &self.clients {
            unsafe {
                libc::close(c.fd);
            }
        }
        unsafe {
            libc::close(self.devnull);
        }
        if let Some(saved) = self.saved_fd0.take() {
            unsafe {
                libc::dup2(saved, 0);
                libc::close(saved);
            }
        }
        self.kill = None;
    }
}

impl SrvCfg {
    fn execute<'a>(&'a self, path: &[SAct], tracing: bool, with_kill: bool) -> World<'a> {
        let mut w = World::new(self, tracing, with_kill);
        for a in path {
            w.step(*a);
            if w.violation.is_some() {
                break;
            }
        }
        w
    }

    fn witness_index(&self) -> Option<usize> {
        // by convention the last well-behaved client with `preconnected == false` and a script
        // of one chunk that no explored action touches is the witness; marked by can_close=false,
        // reads=true and role WellBehaved at the last index
        if self.closure_witness {
            Some(self.clients.len() - 1)
        } else {
            None
        }
    }

    fn probes(&self, path: &[SAct]) -> Option<(String, String)> {
        self.probes_traced(path, false).0
    }

    fn probes_traced(&self, path: &[SAct], tracing: bool) -> (Option<(String, String)>, Vec<Value>) {
        // each probe consumes a freshly re-executed copy of the state
        if self.closure_all {
            let mut w = self.execute(path, tracing, self.kill_switch);
            let n0 = w.steps.len();
            w.closure_all();
            if let Some(v) = w.violation.take() {
                let mut st = vec![json!({"probe": "closure_all"})];
                st.extend(w.steps.drain(n0..));
                return (Some(v), st);
            }
        }
        if self.closure_all {
            let mut w = self.execute(path, tracing, self.kill_switch);
            let n0 = w.steps.len();
            w.closure_without_answers();
            if let Some(v) = w.violation.take() {
                let mut st = vec![json!({"probe": "closure_without_answers"})];
                st.extend(w.steps.drain(n0..));
                return (Some(v), st);
            }
        }
        if let Some(wi) = self.witness_index() {
            // the witness's events may be handled before or after the other clients' in a batch
            for order in [0u32, 1000] {
                let mut w = self.execute(path, tracing, self.kill_switch);
                let n0 = w.steps.len();
                w.closure_witness(wi, order);
                if let Some(v) = w.violation.take() {
                    let mut st = vec![json!({"probe": format!("closure_witness(batch order {})", order)})];
                    st.extend(w.steps.drain(n0..));
                    return (Some(v), st);
                }
            }
        }
        if self.release_check {
            let mut w = self.execute(path, tracing, self.kill_switch);
            let n0 = w.steps.len();
            w.release_check();
            if let Some(v) = w.violation.take() {
                let mut st = vec![json!({"probe": "release_check"})];
                st.extend(w.steps.drain(n0..));
                return (Some(v), st);
            }
        }
        if self.release_check && self.property == "C10" {
            let mut w = self.execute(path, tracing, self.kill_switch);
            let n0 = w.steps.len();
            w.pending_connection_probe();
            if let Some(v) = w.violation.take() {
                let mut st = vec![json!({"probe": "pending_connection_probe"})];
                st.extend(w.steps.drain(n0..));
                return (Some(v), st);
            }
        }
        if self.closure_c11 {
            let mut w = self.execute(path, tracing, self.kill_switch);
            let n0 = w.steps.len();
            w.closure_c11();
            if let Some(v) = w.violation.take() {
                let mut st = vec![json!({"probe": "closure_c11"})];
                st.extend(w.steps.drain(n0..));
                return (Some(v), st);
            }
        }
        if self.flush_probe {
            let mut w = self.execute(path, tracing, self.kill_switch);
            let n0 = w.steps.len();
            w.flush_probe();
            if let Some(v) = w.violation.take() {
                let mut st = vec![json!({"probe": "flush_probe"})];
                st.extend(w.steps.drain(n0..));
                return (Some(v), st);
            }
            if self.small_sndbuf {
                let mut w = self.execute(path, tracing, self.kill_switch);
                let n0 = w.steps.len();
                w.flush_remainder_probe();
                if let Some(v) = w.violation.take() {
                    let mut st = vec![json!({"probe": "flush_remainder_probe"})];
                    st.extend(w.steps.drain(n0..));
                    return (Some(v), st);
                }
            }
        }
        (None, vec![])
    }

    fn replay_json(&self, path: &[SAct]) -> Value {
        json!({"engine": "srvx", "config": self.to_json(), "actions": path.iter().map(|a| enc(*a)).collect::<Vec<_>>(), "actions_readable": path.iter().map(|a| format!("{:?}", a)).collect::<Vec<_>>()})
    }
}

impl System for SrvCfg {
    type A = SAct;
    fn enc(a: SAct) -> u64 {
        enc(a)
    }
    fn dec(x: u64) -> SAct {
        dec(x)
    }
    fn needs_clean_fds(&self) -> bool {
        true
    }
    fn replay_of(&self, path: &[SAct]) -> Value {
        self.replay_json(path)
    }
    fn run(&self, path: &[SAct]) -> Outcome<SAct> {
        let w = self.execute(path, false, self.kill_switch);
        let key = w.key();
        let mut enabled = w.enabled();
        // the witness client is driven by its probe only
        if let Some(wi) = self.witness_index() {
            enabled.retain(|a| !matches!(a, SAct::Connect(c) | SAct::Send(c) | SAct::Close(c) | SAct::ShutRd(c) | SAct::ShutWr(c) | SAct::Recv(c, _) if *c as usize == wi));
        }
        let obs = util::hash64(&[w.log.join("|").as_bytes()]);
        let facts = w.facts;
        let nontrivial = !w.outstanding.is_empty() || w.clients.iter().any(|c| c.closed || c.shut_rd || c.shut_wr || c.refused) || w.server_table().iter().any(|e| e.1 != 0);
        let killed = w.killed;
        let mut violation = w.violation.clone();
        drop(w);
        if violation.is_none() && !killed {
            violation = self.probes(path);
        }
        if violation.is_none() && self.twin_without_kill && !killed {
            // the same history on a server that has no kill switch must look the same
            let a = self.execute(path, false, true);
            let la = a.log.clone();
            drop(a);
            let b = self.execute(path, false, false);
            let lb = b.log.clone();
            let bv = b.violation.clone();
            drop(b);
            if la != lb || bv.is_some() {
                let i = la.iter().zip(lb.iter()).position(|(x, y)| x != y).unwrap_or(la.len().min(lb.len()));
                violation = Some(("kill-switch-presence-changes-behaviour".into(), format!("observation #{} differs: with kill switch {:?}, without {:?} (twin violation: {:?})", i, la.get(i), lb.get(i), bv)));
            }
        }
        if violation.is_some() {
            enabled.clear();
        }
        Outcome {
            key,
            enabled,
            violation: violation.map(|(s, d)| Violation { signature: s, detail: d, replay: self.replay_json(path) }),
            obs,
            nontrivial,
            facts,
            impl_facts: 0, aux: 0,
        }
    }
    fn trace(&self, path: &[SAct]) -> Value {
        let mut w = self.execute(path, true, self.kill_switch);
        let steps = std::mem::take(&mut w.steps);
        let mut v = w.violation.clone();
        let killed = w.killed;
        let table: Vec<String> = w.server_table().iter().map(|e| format!("fd {} state {} in_flight {}", e.0, e.1, e.2)).collect();
        let masks = w.interest_masks();
        drop(w);
        let mut steps = steps;
        if v.is_none() && !killed {
            let (pv, psteps) = self.probes_traced(path, true);
            v = pv;
            steps.extend(psteps);
        }
        json!({"steps": steps, "final_server_table": table, "final_epoll_interest": masks, "violation": v.map(|(s, d)| json!({"signature": s, "detail": d}))})
    }
    fn fact_names(&self) -> Vec<&'static str> {
        FACTS.to_vec()
    }
}

pub fn replay(v: &Value) -> (bool, Value) {
    let cfg = SrvCfg::from_json(&v["config"]);
    let path: Vec<SAct> = v["actions"].as_array().unwrap().iter().map(|x| dec(x.as_u64().unwrap())).collect();
    let o = cfg.run(&path);
    let t = cfg.trace(&path);
    (o.violation.is_some(), json!({"trace": t, "violation": o.violation.map(|v| json!({"signature": v.signature, "detail": v.detail}))}))
}
