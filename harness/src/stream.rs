//! `ScriptedStream`: an in-memory stream whose every answer is chosen by the harness.
//! Implements `Read + Write + ScmSocket` (with `recv_with_fds` overridden), which is all
//! `HttpConnection<T>` asks of its stream.

use std::cell::RefCell;
use std::io::{Read, Write};
use std::os::unix::io::RawFd;
use std::rc::Rc;
use vmm_sys_util::sock_ctrl_msg::ScmSocket;

#[derive(Clone, Debug)]
pub enum ReadAns {
    /// Deliver exactly these bytes together with these descriptors.
    Data(Vec<u8>, Vec<RawFd>),
    /// recvmsg fails with this errno (EAGAIN, EINTR, ...), possibly still delivering descriptors
    /// is impossible on a real socket, so none are delivered.
    Errno(i32),
    /// recvmsg returns 0 bytes (orderly shutdown), possibly with descriptors.
    Eof(Vec<RawFd>),
}

#[derive(Clone, Debug)]
pub enum WriteAns {
    /// Accept exactly k bytes (k <= offered is asserted).
    Accept(usize),
    /// Accept everything offered.
    All,
    /// write returns Ok(0).
    Zero,
    /// write fails with this errno.
    Errno(i32),
}

#[derive(Default)]
pub struct Ctl {
    pub next_read: Option<ReadAns>,
    pub next_write: Option<WriteAns>,
    /// Default answer for writes when nothing is scripted.
    pub write_default_all: bool,
    pub recv_calls: usize,
    pub read_calls: usize,
    pub write_calls: usize,
    pub flush_calls: usize,
    /// Space the connection offered on its most recent recv.
    pub last_iov_len: usize,
    /// A recv/write happened with no scripted answer (answered EAGAIN).
    pub unscripted_recv: usize,
    pub unscripted_write: usize,
    /// The connection asked for more bytes than the buffer it offered could hold etc.
    pub protocol_errors: Vec<String>,
    /// Slice offered by the most recent write call.
    pub last_offered: Vec<u8>,
    /// All bytes accepted so far.
    pub accepted: Vec<u8>,
}

#[derive(Clone)]
pub struct ScriptedStream {
    pub ctl: Rc<RefCell<Ctl>>,
}

impl ScriptedStream {
    pub fn new() -> (Self, Rc<RefCell<Ctl>>) {
        let ctl = Rc::new(RefCell::new(Ctl::default()));
        (ScriptedStream { ctl: ctl.clone() }, ctl)
    }
}

impl Read for ScriptedStream {
    fn read(&mut self, _buf: &mut [u8]) -> std::io::Result<usize> {
        // HttpConnection::try_read receives through recv_with_fds; a plain read would be a
        // second receive path and is counted as such.
        self.ctl.borrow_mut().read_calls += 1;
        Err(std::io::Error::from_raw_os_error(libc::EAGAIN))
    }
}

impl Write for ScriptedStream {
    fn write(&mut self, buf: &[u8]) -> std::io::Result<usize> {
        let mut c = self.ctl.borrow_mut();
        c.write_calls += 1;
        c.last_offered = buf.to_vec();
        let ans = match c.next_write.take() {
            Some(a) => a,
            None if c.write_default_all => WriteAns::All,
            None => {
                c.unscripted_write += 1;
                return Err(std::io::Error::from_raw_os_error(libc::EAGAIN));
            }
        };
        match ans {
            WriteAns::Accept(k) => {
                if k > buf.len() {
                    // the stream cannot take more than it is offered (the connection may offer
                    // less than the harness expected, e.g. a capped slice): take it all
                    let n = buf.len();
                    c.accepted.extend_from_slice(buf);
                    return Ok(n);
                }
                c.accepted.extend_from_slice(&buf[..k]);
                Ok(k)
            }
            WriteAns::All => {
                c.accepted.extend_from_slice(buf);
                Ok(buf.len())
            }
            WriteAns::Zero => Ok(0),
            WriteAns::Errno(e) => Err(std::io::Error::from_raw_os_error(e)),
        }
    }
    fn flush(&mut self) -> std::io::Result<()> {
        self.ctl.borrow_mut().flush_calls += 1;
        Ok(())
    }
}

impl ScmSocket for ScriptedStream {
    fn socket_fd(&self) -> RawFd {
        -1
    }

    unsafe fn recv_with_fds(
        &self,
        iovecs: &mut [libc::iovec],
        fds: &mut [RawFd],
    ) -> vmm_sys_util::errno::Result<(usize, usize)> {
        let mut c = self.ctl.borrow_mut();
        c.recv_calls += 1;
        let space: usize = iovecs.iter().map(|v| v.iov_len).sum();
        c.last_iov_len = space;
        let ans = match c.next_read.take() {
            Some(a) => a,
            None => {
                c.unscripted_recv += 1;
                return Err(vmm_sys_util::errno::Error::new(libc::EAGAIN));
            }
        };
        let put_fds = |c: &mut Ctl, src: &[RawFd], dst: &mut [RawFd]| -> usize {
            if src.len() > dst.len() {
                c.protocol_errors.push(format!(
                    "descriptor array too small: {} offered for {} descriptors",
                    dst.len(),
                    src.len()
                ));
            }
            let n = src.len().min(dst.len());
            dst[..n].copy_from_slice(&src[..n]);
            n
        };
        match ans {
            ReadAns::Errno(e) => Err(vmm_sys_util::errno::Error::new(e)),
            ReadAns::Eof(f) => {
                let n = put_fds(&mut c, &f, fds);
                Ok((0, n))
            }
            ReadAns::Data(bytes, f) => {
                // More bytes may have arrived than the connection has room for: like a socket,
                // hand over what fits; the harness keeps the rest.
                let mut off = 0usize;
                for v in iovecs.iter_mut() {
                    if off >= bytes.len() {
                        break;
                    }
                    let n = (bytes.len() - off).min(v.iov_len);
                    std::ptr::copy_nonoverlapping(bytes[off..].as_ptr(), v.iov_base as *mut u8, n);
                    off += n;
                }
                let n = put_fds(&mut c, &f, fds);
                Ok((off, n))
            }
        }
    }
}
