use mhv::{props, util};
use serde_json::{json, Value};

fn main() {
    util::quiet_panics();
    let args: Vec<String> = std::env::args().collect();
    if args.len() < 3 {
        eprintln!("usage: mhv run <ID> <quick|thorough> <out.json> | mhv replay <file>");
        std::process::exit(2);
    }
    match args[1].as_str() {
        "run" => {
            let id = &args[2];
            let thorough = args.get(3).map(|s| s == "thorough").unwrap_or(false);
            let out = args.get(4).cloned().unwrap_or_else(|| "/dev/stdout".into());
            let parts = match props::run(id, thorough) {
                Some(p) => p,
                None => {
                    eprintln!("unknown property {}", id);
                    std::process::exit(2);
                }
            };
            let v: Vec<Value> = parts.iter().map(|p| p.to_json()).collect();
            std::fs::write(&out, serde_json::to_vec_pretty(&json!({"parts": v, "small_build": props::small_build()})).unwrap()).unwrap();
        }
        "replay" => {
            // a replayed history may hang (that can be the violation): watchdog
            unsafe {
                libc::alarm(120);
            }
            let v: Value = serde_json::from_slice(&std::fs::read(&args[2]).unwrap()).unwrap();
            match mhv::replay_value(&v["replay"]) {
                None => {
                    println!("WRONG-BUILD");
                    std::process::exit(3);
                }
                Some((repro, trace)) => {
                    println!("{}", serde_json::to_string_pretty(&trace).unwrap());
                    println!("{}", if repro { "REPRODUCED" } else { "NOT-REPRODUCED" });
                    std::process::exit(if repro { 1 } else { 0 });
                }
            }
        }
        _ => std::process::exit(2),
    }
}
