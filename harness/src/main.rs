#![allow(dead_code)]
mod connw;
mod connx;
mod explore;
mod par;
mod props;
mod spec;
mod srvx;
mod stream;
mod util;

use serde_json::{json, Value};

fn main() {
    util::quiet_panics();
    let args: Vec<String> = std::env::args().collect();
    if args.len() < 3 {
        eprintln!("usage: mhv run <ID> <quick|thorough> <out.json> | mhv replay <file>");
        std::process::exit(2);
    }
    match args[1].as_str() {
        "run" => {
            let id = &args[2];
            let thorough = args.get(3).map(|s| s == "thorough").unwrap_or(false);
            let out = args.get(4).cloned().unwrap_or_else(|| "/dev/stdout".into());
            let parts = match props::run(id, thorough) {
                Some(p) => p,
                None => {
                    eprintln!("unknown property {}", id);
                    std::process::exit(2);
                }
            };
            let v: Vec<Value> = parts.iter().map(|p| p.to_json()).collect();
            std::fs::write(&out, serde_json::to_vec_pretty(&json!({"parts": v, "small_build": props::small_build()})).unwrap()).unwrap();
        }
        "replay" => {
            let v: Value = serde_json::from_slice(&std::fs::read(&args[2]).unwrap()).unwrap();
            let r = &v["replay"];
            let want_small = r["config"]["buffer_size"].as_u64().map(|b| b == 32);
            if let Some(ws) = want_small {
                if ws != props::small_build() {
                    println!("WRONG-BUILD");
                    std::process::exit(3);
                }
            }
            let (repro, trace) = match r["engine"].as_str() {
                Some("connx") => connx::replay(r),
                Some("connw") => connw::replay(r),
                Some("srvx") => srvx::replay(r),
                Some("c05") | Some("c05len") => props::c05::replay(r),
                Some("c14") => props::c14::replay(r),
                Some("c15line") | Some("c15block") => props::c15::replay(r),
                Some("c16tok") | Some("c16uri") => props::c16::replay(r),
                Some("c17") => props::c17::replay(r),
                Some("entry") => props::c03::replay_entry(r),
                Some("socketpair") => props::c12::replay_socketpair(r),
                _ => {
                    eprintln!("unknown engine in replay file");
                    std::process::exit(2);
                }
            };
            println!("{}", serde_json::to_string_pretty(&trace).unwrap());
            println!("{}", if repro { "REPRODUCED" } else { "NOT-REPRODUCED" });
            std::process::exit(if repro { 1 } else { 0 });
        }
        _ => std::process::exit(2),
    }
}
